"""Cross-check of the reference model pyref/belt.py against the compiled bee2 library (ASan build,
exact-size heap buffers) through /verif/lib/x.py.   Run:  python3-vt /verif/pyref/xcheck_belt.py [seed]

Every disagreement is RECORDED and printed (function, input, library output, model output);
the model is never adjusted here.  Exit status 1 if there is any disagreement."""
import math
import os
import random
import sys
import time

sys.path.insert(0, "/verif/lib")
sys.path.insert(0, os.path.dirname(os.path.abspath(__file__)))
from x import X, Crash  # noqa: E402
import belt  # noqa: E402

LENS = [0, 1, 15, 16, 17, 31, 32, 33, 47, 48, 63, 64, 65, 79, 80, 81, 100, 200]
KEYLENS = [16, 24, 32]
FMT_MODS = [2, 3, 10, 16, 255, 256, 257, 1000, 49667, 65535, 65536]
FMT_COUNTS = [2, 3, 4, 5, 9, 10, 11, 20, 21, 50, 100, 160, 300, 319, 320, 600]

SEED = int(sys.argv[1]) if len(sys.argv) > 1 else 20260926
rnd = random.Random(SEED)
x = X("asan")

STATS = {}     # function -> [checked, disagreements]
DISAGREE = []  # (function, input description, library, model)


def rb(n):
    return rnd.randbytes(n)


def rkey():
    return rb(rnd.choice(KEYLENS))


def hx(v):
    if isinstance(v, (bytes, bytearray)):
        return bytes(v).hex().upper() or "(empty)"
    if isinstance(v, tuple):
        return "(" + ", ".join(hx(e) for e in v) + ")"
    return repr(v)


def check(fn, lib, model, **inp):
    st = STATS.setdefault(fn, [0, 0])
    st[0] += 1
    if lib != model:
        st[1] += 1
        DISAGREE.append((fn, ", ".join("%s=%s" % (k, hx(v)) for k, v in inp.items()), hx(lib), hx(model)))


def lens(minlen=0, step=1, extra=6, hi=300):
    """the mandated lengths that are admissible plus a few random ones"""
    r = [n for n in LENS if n >= minlen and n % step == 0]
    while extra > 0:
        n = rnd.randrange(minlen, hi + 1)
        if n % step == 0:
            r.append(n)
            extra -= 1
    return r


def lib_call(fn, *args, ret="i"):
    """library call; a crash of the executor is reported as the library's output"""
    try:
        return x.call(fn, *args, ret=ret)
    except Crash as e:
        return "CRASH %s: %s" % (e.kind, e.text.splitlines()[0] if e.text else "")


def res(err, *bufs):
    """(err, contents of the output buffers...) or the crash description"""
    if not isinstance(err, int):
        return err
    return (err,) + tuple(b.read() for b in bufs)


# ------------------------------------------------------------------------------------------------

def xc_key_expand(rounds):
    for _ in range(rounds):
        for kl in KEYLENS:
            key = rb(kl)
            out = x.out(32)
            x.call("beltKeyExpand", out, x.buf(key), kl, ret="v")
            check("key_expand", out.read(), belt.key_expand(key), key=key)
            out2 = x.out(32)
            x.call("beltKeyExpand2", out2, x.buf(key), kl, ret="v")    # u32 words, little-endian host
            check("key_expand(2)", out2.read(), belt.key_expand(key), key=key)
        x.reset()


def xc_block(rounds):
    for _ in range(rounds):
        key, blk = rkey(), rb(16)
        k2 = x.out(32)
        x.call("beltKeyExpand2", k2, x.buf(key), len(key), ret="v")
        b = x.buf(blk)
        x.call("beltBlockEncr", b, k2, ret="v")
        check("block_encr", b.read(), belt.block_encr(key, blk), key=key, x=blk)
        b = x.buf(blk)
        x.call("beltBlockDecr", b, k2, ret="v")
        check("block_decr", b.read(), belt.block_decr(key, blk), key=key, y=blk)
        x.reset()


def xc_wbl(rounds):
    keep = x.call("beltWBL_keep", ret="z")
    for _ in range(rounds):
        for n in lens(32):
            key, data = rkey(), rb(n)
            st = x.out(keep)
            x.call("beltWBLStart", st, x.buf(key), len(key), ret="v")
            b = x.buf(data)
            x.call("beltWBLStepE", b, n, st, ret="v")
            check("wbl_encr", b.read(), belt.wbl_encr(key, data), key=key, x=data)
            b = x.buf(data)
            x.call("beltWBLStepD", b, n, st, ret="v")
            check("wbl_decr", b.read(), belt.wbl_decr(key, data), key=key, y=data)
            b1, b2 = x.buf(data[:-16]), x.buf(data[-16:])
            x.call("beltWBLStepD2", b1, b2, n, st, ret="v")
            check("wbl_decr(StepD2)", b1.read() + b2.read(), belt.wbl_decr(key, data), key=key, y=data)
            # continued encryption: StepE, then StepR goes on with the counter 2n+1..4n
            b = x.buf(data)
            x.call("beltWBLStepE", b, n, st, ret="v")
            x.call("beltWBLStepR", b, n, st, ret="v")
            nb = (n + 15) // 16
            m = belt.wbl_encr(key, belt.wbl_encr(key, data), first_round=2 * nb + 1)
            check("wbl_encr(StepR)", b.read(), m, key=key, x=data)
            x.reset()


def xc_compress(rounds):
    deep = x.call("beltCompr_deep", ret="z")
    for _ in range(rounds):
        data = rb(64)
        s, h, X_ = x.zero(16), x.buf(data[32:]), x.buf(data[:32])
        x.call("beltCompr2", s, h, X_, x.out(deep), ret="v")
        check("compress", (s.read(), h.read()), belt.compress(data), x=data)
        h = x.buf(data[32:])
        x.call("beltCompr", h, X_, x.out(deep), ret="v")
        check("compress(Y only)", h.read(), belt.compress(data)[1], x=data)
        x.reset()


def _enc_dec(name_e, name_d, cfn_e, cfn_d, mfn_e, mfn_d, minlen, step, rounds, iv=True):
    for _ in range(rounds):
        for n in lens(minlen, step):
            key, data = rkey(), rb(n)
            ivb = rb(16) if iv else None
            tail = (x.buf(ivb),) if iv else ()
            margs = (key, ivb) if iv else (key,)
            d = x.out(n)
            err = lib_call(cfn_e, d, x.buf(data), n, x.buf(key), len(key), *tail)
            check(name_e, res(err, d), (0, mfn_e(*margs, data)),
                  key=key, iv=ivb, x=data)
            d = x.out(n)
            err = lib_call(cfn_d, d, x.buf(data), n, x.buf(key), len(key), *tail)
            check(name_d, res(err, d), (0, mfn_d(*margs, data)),
                  key=key, iv=ivb, y=data)
            x.reset()


def xc_modes(rounds):
    _enc_dec("ecb_encr", "ecb_decr", "beltECBEncr", "beltECBDecr", belt.ecb_encr, belt.ecb_decr, 16, 1, rounds, iv=False)
    _enc_dec("cbc_encr", "cbc_decr", "beltCBCEncr", "beltCBCDecr", belt.cbc_encr, belt.cbc_decr, 16, 1, rounds)
    _enc_dec("cfb_encr", "cfb_decr", "beltCFBEncr", "beltCFBDecr", belt.cfb_encr, belt.cfb_decr, 0, 1, rounds)
    _enc_dec("ctr", "ctr(decr)", "beltCTR", "beltCTR", belt.ctr, belt.ctr, 0, 1, rounds)
    _enc_dec("bde_encr", "bde_decr", "beltBDEEncr", "beltBDEDecr", belt.bde_encr, belt.bde_decr, 16, 16, rounds)
    _enc_dec("sde_encr", "sde_decr", "beltSDEEncr", "beltSDEDecr", belt.sde_encr, belt.sde_decr, 32, 16, rounds)


def xc_mac(rounds):
    for _ in range(rounds):
        for n in lens(0):
            key, data = rkey(), rb(n)
            t = x.out(8)
            err = lib_call("beltMAC", t, x.buf(data), n, x.buf(key), len(key))
            check("mac", res(err, t), (0, belt.mac(key, data)), key=key, x=data)
            x.reset()


def _aead(name, cwrap, cunwrap, mwrap, munwrap, rounds):
    for _ in range(rounds):
        for n1 in lens(0, extra=2):
            n2 = rnd.choice(LENS + [rnd.randrange(0, 301)])
            key, iv, pt, ad = rkey(), rb(16), rb(n1), rb(n2)
            ct, tag = x.out(n1), x.out(8)
            err = lib_call(cwrap, ct, tag, x.buf(pt), n1, x.buf(ad), n2, x.buf(key), len(key), x.buf(iv))
            mct, mtag = mwrap(key, iv, ad, pt)
            check(name + "_wrap", res(err, ct, tag), (0, mct, mtag), key=key, iv=iv, ad=ad, pt=pt)
            # unwrap: authentic, then one of tag / ct / ad corrupted
            out = x.out(n1)
            err = lib_call(cunwrap, out, x.buf(mct), n1, x.buf(ad), n2, x.buf(mtag), x.buf(key), len(key), x.buf(iv))
            check(name + "_unwrap", res(err, out), (0, munwrap(key, iv, ad, mct, mtag)),
                  key=key, iv=iv, ad=ad, ct=mct, tag=mtag)
            bct, bad_, btag = bytearray(mct), bytearray(ad), bytearray(mtag)
            victims = [btag] + ([bct] if n1 else []) + ([bad_] if n2 else [])
            v = rnd.choice(victims)
            v[rnd.randrange(len(v))] ^= 1 << rnd.randrange(8)
            out = x.out(n1)
            err = lib_call(cunwrap, out, x.buf(bct), n1, x.buf(bad_), n2, x.buf(btag), x.buf(key), len(key), x.buf(iv))
            m = munwrap(key, iv, bytes(bad_), bytes(bct), bytes(btag))
            check(name + "_unwrap(forged)", "accepted" if err == 0 else "rejected",
                  "rejected" if m is None else "accepted", key=key, iv=iv, ad=bytes(bad_), ct=bytes(bct), tag=bytes(btag))
            x.reset()


def xc_aead(rounds):
    _aead("dwp", "beltDWPWrap", "beltDWPUnwrap", belt.dwp_wrap, belt.dwp_unwrap, rounds)
    _aead("che", "beltCHEWrap", "beltCHEUnwrap", belt.che_wrap, belt.che_unwrap, rounds)


def xc_kwp(rounds):
    for _ in range(rounds):
        for n in lens(16):
            key, data = rkey(), rb(n)
            hdr = rnd.choice([None, rb(16), bytes(16)])
            tok = x.out(n + 16)
            err = lib_call("beltKWPWrap", tok, x.buf(data), n, x.buf(hdr) if hdr is not None else None,
                           x.buf(key), len(key))
            mtok = belt.kwp_wrap(key, hdr, data)
            check("kwp_wrap", res(err, tok), (0, mtok), key=key, header=hdr, x=data)
            out = x.out(n)
            err = lib_call("beltKWPUnwrap", out, x.buf(mtok), n + 16, x.buf(hdr) if hdr is not None else None,
                           x.buf(key), len(key))
            check("kwp_unwrap", res(err, out), (0, belt.kwp_unwrap(key, hdr, mtok)), key=key, header=hdr, token=mtok)
            # a random token / a wrong header: both sides must reject or both accept
            btok = bytearray(mtok)
            btok[rnd.randrange(n + 16)] ^= 1 << rnd.randrange(8)
            out = x.out(n)
            err = lib_call("beltKWPUnwrap", out, x.buf(btok), n + 16, x.buf(hdr) if hdr is not None else None,
                           x.buf(key), len(key))
            m = belt.kwp_unwrap(key, hdr, bytes(btok))
            check("kwp_unwrap(forged)", "accepted" if err == 0 else "rejected",
                  "rejected" if m is None else "accepted", key=key, header=hdr, token=bytes(btok))
            x.reset()


def xc_hash(rounds):
    for _ in range(rounds):
        for n in lens(0, hi=1000):
            data = rb(n)
            h = x.out(32)
            err = lib_call("beltHash", h, x.buf(data), n)
            check("hash", res(err, h), (0, belt.hash(data)), x=data)
            x.reset()


def xc_hmac(rounds):
    for _ in range(rounds):
        for n in lens(0):
            kl = rnd.choice(LENS + [29, 42, rnd.randrange(0, 130)])
            key, data = rb(kl), rb(n)
            h = x.out(32)
            err = lib_call("beltHMAC", h, x.buf(data), n, x.buf(key), kl)
            check("hmac", res(err, h), (0, belt.hmac(key, data)), key=key, x=data)
            x.reset()


def xc_pbkdf2(rounds):
    for i in range(rounds):
        pl = rnd.choice([0, 1, 3, 8, 16, 31, 32, 33, 64, 65, 100])
        sl = rnd.choice([0, 1, 7, 8, 9, 16, 28, 29, 32, 60, 61, 100])
        it = rnd.choice([1, 1, 2, 3, 4, 5, 7, 10]) if i % 25 else 100
        pwd, salt = rb(pl), rb(sl)
        k = x.out(32)
        err = lib_call("beltPBKDF2", k, x.buf(pwd), pl, it, x.buf(salt), sl)
        check("pbkdf2", res(err, k), (0, belt.pbkdf2(pwd, it, salt)), pwd=pwd, iter=it, salt=salt)
        x.reset()


def xc_krp(rounds):
    for _ in range(rounds):
        for n in KEYLENS:
            for m in KEYLENS:
                if m > n:
                    continue
                key, level, hdr = rb(n), rb(12), rb(16)
                out = x.out(m)
                err = lib_call("beltKRP", out, m, x.buf(key), n, x.buf(level), x.buf(hdr))
                check("krp", res(err, out), (0, belt.krp(key, level, hdr, m)), key=key, level=level, header=hdr, outlen=m)
        x.reset()


def _u16s(w):
    return b"".join(v.to_bytes(2, "little") for v in w)


def _from_u16s(b):
    return [int.from_bytes(b[i:i + 2], "little") for i in range(0, len(b), 2)]


def _fmt_case(mod, count):
    key = rkey()
    iv = rnd.choice([None, rb(16)])
    kind = rnd.randrange(4)
    if kind == 0:
        src = [rnd.randrange(mod) for _ in range(count)]
    elif kind == 1:
        src = [mod - 1] * count
    elif kind == 2:
        src = [0] * count
    else:
        src = [rnd.choice([0, mod - 1, rnd.randrange(mod)]) for _ in range(count)]
    for fn, cfn, mfn in (("fmt_encr", "beltFMTEncr", belt.fmt_encr), ("fmt_decr", "beltFMTDecr", belt.fmt_decr)):
        d = x.out(2 * count)
        err = lib_call(cfn, d, mod, x.buf(_u16s(src)), count, x.buf(key), len(key), x.buf(iv) if iv is not None else None)
        lib = (err, _from_u16s(d.read())) if isinstance(err, int) else err
        check(fn, lib, (0, mfn(key, mod, iv, src)), mod=mod, count=count, key=key, iv=iv, src=src)
    x.reset()


def xc_fmt(rounds):
    for _ in range(rounds):
        for mod in FMT_MODS:
            for count in FMT_COUNTS:
                _fmt_case(mod, count)
    for _ in range(100 * rounds):
        _fmt_case(rnd.randrange(2, 65537), rnd.choice([rnd.randrange(2, 40), rnd.randrange(2, 601)]))


def xc_fmt_blocks():
    """number of 64-bit blocks b(mod, n) used by the library, recovered from beltFMT_keep():
    keep(mod, count) = sizeof(state) + 8 * (b(mod, ceil(count / 2)) + 1).  Compared with the exact
    ceil(n log2(mod) / 64) on the mandated grid and on all (mod, n) that are close to a boundary."""
    size = x.call("beltFMT_keep", 2, 2, ret="z") - 16      # b(2, 1) = 1
    cases = {(m, (c + 1) // 2) for m in FMT_MODS for c in FMT_COUNTS}
    eps = 2e-4     # the library's Pade approximation is off by < 1e-5 blocks, see belt_fmt.c
    for mod in range(2, 65537):
        l = math.log2(mod) / 64
        for n in range(1, 301):
            v = n * l
            f = v - math.floor(v)
            if f < eps or f > 1 - eps:
                cases.add((mod, n))
    for mod, n in sorted(cases):
        keep = lib_call("beltFMT_keep", mod, 2 * n, ret="z")
        lib = (keep - size) // 8 - 1 if isinstance(keep, int) else keep
        check("fmt_blocks(b)", lib, belt.fmt_blocks(mod, n), mod=mod, half_length=n)


def diag_fmt(param_sets):
    """Explanation only (the model itself is NOT changed): re-run the differing FMT parameter sets with
    the model's block count b replaced by the one the library uses (recovered from beltFMT_keep)."""
    size = x.call("beltFMT_keep", 2, 2, ret="z") - 16
    exact = belt.fmt_blocks
    try:
        for mod, count in param_sets:
            key, iv, src = rkey(), rb(16), [rnd.randrange(mod) for _ in range(count)]
            d = x.out(2 * count)
            x.call("beltFMTEncr", d, mod, x.buf(_u16s(src)), count, x.buf(key), len(key), x.buf(iv))
            lib = _from_u16s(d.read())
            belt.fmt_blocks = exact
            m_exact = belt.fmt_encr(key, mod, iv, src)
            belt.fmt_blocks = lambda m, n: (x.call("beltFMT_keep", m, 2 * n, ret="z") - size) // 8 - 1
            m_forced = belt.fmt_encr(key, mod, iv, src)
            n1, n2 = (count + 1) // 2, count // 2
            print("  diag mod=%d count=%d: exact b1,b2 = %d,%d; library b1,b2 = %d,%d; model(exact b) %s library; "
                  "model(library's b) %s library; library decr(encr) round trip %s" % (
                      mod, count, exact(mod, n1), exact(mod, n2), belt.fmt_blocks(mod, n1), belt.fmt_blocks(mod, n2),
                      "==" if m_exact == lib else "!=", "==" if m_forced == lib else "!=",
                      _lib_fmt_roundtrip(mod, count, key, iv, src, lib)))
            x.reset()
    finally:
        belt.fmt_blocks = exact


def _lib_fmt_roundtrip(mod, count, key, iv, src, enc):
    d = x.out(2 * count)
    x.call("beltFMTDecr", d, mod, x.buf(_u16s(enc)), count, x.buf(key), len(key), x.buf(iv))
    return "ok" if _from_u16s(d.read()) == src else "FAILS"


# ------------------------------------------------------------------------------------------------

def main():
    t0 = time.time()
    for f, r in ((xc_key_expand, 100), (xc_block, 300), (xc_wbl, 15), (xc_compress, 300), (xc_modes, 30),
                 (xc_mac, 15), (xc_aead, 15), (xc_kwp, 15), (xc_hash, 15), (xc_hmac, 15), (xc_pbkdf2, 200),
                 (xc_krp, 50), (xc_fmt, 2), (xc_fmt_blocks, None)):
        t = time.time()
        f(r) if r is not None else f()
        print("# %-16s done in %5.1f s" % (f.__name__, time.time() - t), flush=True)
    print("\nseed %d, library build %s (%s), %.0f s" % (SEED, x.config, x.dir, time.time() - t0))
    print("%-24s %8s %8s" % ("function", "checked", "differ"))
    for fn, (n, d) in STATS.items():
        print("%-24s %8d %8d" % (fn, n, d))
    print("%-24s %8d %8d" % ("TOTAL", sum(v[0] for v in STATS.values()), sum(v[1] for v in STATS.values())))
    if DISAGREE:
        print("\nDISAGREEMENTS (%d):" % len(DISAGREE))
        shown = {}
        for fn, inp, lib, model in DISAGREE:
            shown[fn] = shown.get(fn, 0) + 1
            if shown[fn] <= 2:
                cut = lambda s: s if len(s) <= 260 else s[:260] + "...[%d chars]" % len(s)
                print("* %s\n    input:   %s\n    library: %s\n    model:   %s" % (fn, cut(inp), cut(lib), cut(model)))
        for fn, k in shown.items():
            if k > 2:
                print("  (%s: %d more not shown)" % (fn, k - 2))
        # compact list of FMT parameter pairs that differ
        pairs = sorted({(i.split(",")[0], i.split(",")[1].strip()) for fn, i, _, _ in DISAGREE if fn.startswith("fmt")})
        if pairs:
            print("FMT parameter sets with a disagreement:", pairs)
            diag_fmt(sorted({(int(a.split("=")[1]), int(b.split("=")[1])) for a, b in pairs if b.startswith("count")}))
    x.close()
    return 1 if DISAGREE else 0


if __name__ == "__main__":
    sys.exit(main())
