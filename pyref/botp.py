"""STB 34.101.47 (botp): one-time passwords HOTP / TOTP / OCRA over HMAC[belt-hash].

Written from RFC 4226 (HOTP, dynamic truncation), RFC 6238 (TOTP), RFC 6287 (OCRA) and the
documentation in /repo/include/bee2/crypto/botp.h:
  * a password is a string of `digit` decimal characters, 4 <= digit <= 9 (botp.h, common part);
    botpDT() itself is documented for 4 <= digit <= 10; the HOTP/TOTP entry points of the
    library additionally restrict digit to 6..8 (RFC 4226/6238);
  * the counter is a string of 8 octets read as a big-endian number, incremented modulo 2^64;
  * a time mark t (already rounded by the caller) is turned into such a counter;
  * dynamic truncation on a 32-octet mac takes the offset from the LAST octet of the mac.
"""

try:
    from . import belt as _belt
except ImportError:
    import belt as _belt

_hmac = _belt.hmac


def dt(mac, digit):
    """botpDT: dynamic truncation of RFC 4226, 5.3 generalised to longer macs"""
    mac = bytes(mac)
    assert len(mac) >= 20 and 4 <= digit <= 10
    offset = mac[-1] & 0x0F
    p = int.from_bytes(mac[offset:offset + 4], "big") & 0x7FFFFFFF
    return "%0*d" % (digit, p % 10 ** digit)


def ctr_next(ctr8):
    """botpCtrNext: big-endian increment modulo 2^64"""
    ctr8 = bytes(ctr8)
    assert len(ctr8) == 8
    return ((int.from_bytes(ctr8, "big") + 1) % (1 << 64)).to_bytes(8, "big")


def time_to_ctr(t):
    """time mark -> 8 octets, big-endian (two's complement for a negative time_t)"""
    return (t % (1 << 64)).to_bytes(8, "big")


def hotp(key, ctr8, digit):
    """HOTP(K, C) = Truncate(HMAC(K, C)); the next password uses ctr_next(ctr8)"""
    ctr8 = bytes(ctr8)
    assert len(ctr8) == 8 and 4 <= digit <= 9
    return dt(_hmac(bytes(key), ctr8), digit)


def totp(key, t, digit):
    """TOTP = HOTP(K, T), T the rounded time mark"""
    assert 4 <= digit <= 9
    return dt(_hmac(bytes(key), time_to_ctr(t)), digit)


# --------------------------------------------------------------------------- OCRA

P_LEN = {"HBELT": 32, "SHA1": 20, "SHA256": 32, "SHA512": 64}


def ocra_suite_parse(suite):
    """Parse an OCRASuite (RFC 6287, section 6) with the belt-hash based CryptoFunction:

        OCRA-1:HOTP-HBELT-t:[C-]Q<A|N|H>xx[-P<HBELT|SHA1|SHA256|SHA512>][-Snnn][-T<G>]

      t   4..9 (botp.h: 4 <= digit <= 9; RFC 6287 also has 0 and 10),
      xx  two digits, 04..64,
      nnn three digits, up to 512,
      G   1..59 followed by S or M, or 1..48 followed by H, written without leading zeros
          (RFC 6287 writes [0-48]H; a zero step makes no sense for rounding and is rejected here).
    Returns a dict or None if the suite is not acceptable."""
    parts = suite.split(":")
    if len(parts) != 3 or parts[0] != "OCRA-1":
        return None
    cf = parts[1].split("-")
    if len(cf) != 3 or cf[0] != "HOTP" or cf[1] != "HBELT" or cf[2] not in list("456789"):
        return None
    res = {"digit": int(cf[2]), "c": False, "q_type": None, "q_max": None, "p_len": 0, "s_len": 0, "ts": 0}
    di = parts[2].split("-")
    if di and di[0] == "C":
        res["c"] = True
        di = di[1:]
    if not di:
        return None
    q = di[0]
    if len(q) != 4 or q[0] != "Q" or q[1] not in "ANH" or not (q[2:].isascii() and q[2:].isdigit()):
        return None
    res["q_type"], res["q_max"] = q[1], int(q[2:])
    if not 4 <= res["q_max"] <= 64:
        return None
    di = di[1:]
    if di and di[0].startswith("P"):
        if di[0][1:] not in P_LEN:
            return None
        res["p_len"] = P_LEN[di[0][1:]]
        di = di[1:]
    if di and di[0].startswith("S"):
        n = di[0][1:]
        if len(n) != 3 or not (n.isascii() and n.isdigit()) or int(n) > 512:
            return None
        res["s_len"] = int(n)
        di = di[1:]
    if di and di[0].startswith("T"):
        g = di[0][1:]
        if len(g) < 2 or g[-1] not in "SMH":
            return None
        n = g[:-1]
        if not (n.isascii() and n.isdigit()) or len(n) > 2 or n[0] == "0":
            return None
        n = int(n)
        if n > (48 if g[-1] == "H" else 59):
            return None
        res["ts"] = n * {"S": 1, "M": 60, "H": 3600}[g[-1]]
        di = di[1:]
    if di:
        return None
    return res


def ocra_suite_valid(suite):
    return ocra_suite_parse(suite) is not None


def ocra(suite, key, q, ctr8=None, p=None, s=None, t=None):
    """OCRA = Truncate(HMAC(K, OCRASuite || 00 || C || Q || P || S || T)) (RFC 6287, section 5),
    each of C, P, S, T present only if the suite names it; Q padded with zero octets to 128."""
    f = ocra_suite_parse(suite)
    assert f is not None
    q = bytes(q)
    assert 4 <= len(q) <= 2 * f["q_max"]
    data = suite.encode("ascii") + b"\x00"
    if f["c"]:
        assert len(ctr8) == 8
        data += bytes(ctr8)
    data += q + bytes(128 - len(q))
    if f["p_len"]:
        assert len(p) == f["p_len"]
        data += bytes(p)
    if f["s_len"]:
        assert len(s) == f["s_len"]
        data += bytes(s)
    if f["ts"]:
        assert t is not None
        data += time_to_ctr(t)
    return dt(_hmac(bytes(key), data), f["digit"])


# --------------------------------------------------------------------------- vectors

def selftest():
    try:
        from .bash import BELT_H as H
    except ImportError:
        from bash import BELT_H as H
    key = H[128:160]
    # HOTP.1-3
    ctr = H[192:200]
    otp1 = hotp(key, ctr, 8)
    assert otp1 == "21157984"
    ctr = ctr_next(ctr)
    otp2 = hotp(key, ctr, 8)
    assert otp2 == "17877985"
    ctr = ctr_next(ctr)
    otp3 = hotp(key, ctr, 8)
    assert otp3 == "26078636"
    ctr = ctr_next(ctr)
    # TOTP.1-3
    t = 1449165288
    assert totp(key, t // 60, 8) == "97660664"
    t = (t // 60 + 1) * 60
    assert totp(key, t // 60, 8) == "94431522"
    t = (t // 60 + 2) * 60 - 1
    assert totp(key, t // 60, 8) == "55973851"
    # OCRA.format
    for bad in ["OCRA-:HOTP-HBELT-6:C-QN08", "OCRA-1:HOTP-HBELT-3:C-QN08", "OCRA-1:HOTP-HBELT-6-QN08",
                "OCRA-1:HOTP-HBELT-8:C-QA65", "OCRA-1:HOTP-HBELT-8:C-QN08-", "OCRA-1:HOTP-HBELT-8:C-QN08-PSHA",
                "OCRA-1:HOTP-HBELT-8:QN08-SA13", "OCRA-1:HOTP-HBELT-8:QN08-T1N", "OCRA-1:HOTP-HBELT-8:QN08-T61S",
                "OCRA-1:HOTP-HBELT-8:QN08-T51H"]:
        assert not ocra_suite_valid(bad), bad
    assert ocra_suite_valid("OCRA-1:HOTP-HBELT-9:QN08-T8S")
    # OCRA.1-3
    suite = "OCRA-1:HOTP-HBELT-8:C-QN08-PHBELT-S064-T1M"
    assert ocra_suite_valid(suite)
    p = _belt.hash(H[:13])
    s = H[:64]
    t //= 60
    t += 3
    assert ocra(suite, key, otp1.encode(), ctr, p, s, t) == "85199085"
    ctr = ctr_next(ctr)
    t += 10
    assert ocra(suite, key, (otp2 + otp3).encode(), ctr, p, s, t) == "89873725"
    ctr = ctr_next(ctr)
    t += 1
    assert ocra(suite, key, (otp3 + otp2).encode(), ctr, p, s, t) == "21318915"
    # counter wrap
    assert ctr_next(b"\xff" * 8) == bytes(8) and ctr_next(bytes(7) + b"\xff") == bytes(6) + b"\x01\x00"
    return True


if __name__ == "__main__":
    print("OK" if selftest() else "FAIL")
