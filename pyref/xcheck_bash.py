"""Cross-check of the pyref models bash / brng / botp against the C library (run with python3-vt).

Usage: python3-vt xcheck_bash.py [bash] [brng] [botp]   (default: all sections that can be imported)
Every disagreement is printed and counted; nothing is absorbed.
"""
import os, random, sys

HERE = os.path.dirname(os.path.abspath(__file__))
sys.path.insert(0, HERE)
sys.path.insert(0, os.path.join(os.path.dirname(HERE), "lib"))
from x import X, Crash  # noqa

import bash  # noqa

rnd = random.Random(20260926)
rb = lambda n: bytes(rnd.getrandbits(8) for _ in range(n))

CONFIG = os.environ.get("XCHECK_CONFIG", "asan")   # e.g. w32: 32-bit words
x = X(CONFIG)
counts = {}
mism = []
VERBOSE = bool(os.environ.get("XCHECK_VERBOSE"))


def ok(name):
    counts[name] = counts.get(name, 0) + 1


def _show(v, full):
    if isinstance(v, (bytes, bytearray)):
        v = v.hex()
    elif isinstance(v, tuple):
        return "(" + ", ".join(_show(u, full) for u in v) + ")"
    v = str(v)
    return v if full or len(v) <= 72 else v[:64] + "...(%d chars)" % len(v)


def bad(name, **kw):
    mism.append((name, kw))
    first = sum(1 for n, _ in mism if n == name) == 1
    if first or VERBOSE:
        print("MISMATCH", name, {k: _show(v, True) for k, v in kw.items()})


def cmp(name, model, lib, **kw):
    if model == lib:
        ok(name)
    else:
        bad(name, model=model, lib=lib, **kw)


# =========================================================================== bash

def x_bash_f():
    for i in range(300):
        s = rb(192) if i else bytes(192)
        b = x.buf(s)
        x.call("bashF", b, x.out(x.call("bashF_deep", ret="z")), ret="v")
        cmp("bashF", bash.bash_f(s), b.read(), s=s)
        x.reset()


def x_bash_hash():
    keep = x.call("bashHash_keep", ret="z")
    for l in range(16, 257, 16):
        r = 192 - l // 2
        for n in [0, 1, r - 1, r, r + 1, 2 * r - 1, 2 * r, 2 * r + 1] + [rnd.randrange(0, 3 * r) for _ in range(8)]:
            data = rb(n)
            h = x.out(l // 4)
            err = x.call("bashHash", h, l, x.buf(data), n)
            assert err == 0
            want = bash.bash_hash(l, data)
            cmp("bashHash", want, h.read(), l=l, n=n)
            # chunked Start/StepH/StepG (+ StepG does not disturb the state: hash more afterwards)
            st = x.out(keep)
            x.call("bashHashStart", st, l, ret="v")
            cuts = sorted(rnd.randrange(0, n + 1) for _ in range(3))
            prev = 0
            for c in cuts + [n]:
                x.call("bashHashStepH", x.buf(data[prev:c]), c - prev, st, ret="v")
                prev = c
            hl = rnd.choice([l // 4, rnd.randrange(0, l // 4 + 1)])
            h2 = x.out(hl)
            x.call("bashHashStepG", h2, hl, st, ret="v")
            cmp("bashHashStepG", want[:hl], h2.read(), l=l, n=n, cuts=cuts)
            more = rb(rnd.choice([0, 1, r - 1, r, 7]))
            x.call("bashHashStepH", x.buf(more), len(more), st, ret="v")
            v = x.call("bashHashStepV", x.buf(bash.bash_hash(l, data + more)), l // 4, st, ret="b")
            cmp("bashHashStepV", 1, v, l=l, n=n, more=len(more))
            x.reset()
    # parameter validation of the high-level function
    for l in [0, 8, 17, 24, 255, 257, 272, 512]:
        err = x.call("bashHash", x.out(64), l, x.buf(b"abc"), 3)
        cmp("bashHash bad l", True, err != 0, l=l)
        x.reset()


def x_bash_prg(nseq=400):
    keep = x.call("bashPrg_keep", ret="z")
    for it in range(nseq):
        l = rnd.choice([128, 192, 256])
        d = rnd.choice([1, 2])

        def annkey(force_key=None):
            ann = rb(4 * rnd.choice([0, 0, 1, 4, 8, 15, rnd.randrange(0, 16)]))
            kmin = l // 32
            klen = 4 * rnd.choice([kmin, 15, rnd.randrange(kmin, 16)])
            has = rnd.random() < 0.6 if force_key is None else force_key
            return ann, (rb(klen) if has else b"")

        ann, key = annkey()
        m = bash.Prg(l, d, ann, key)
        st = x.out(keep)
        x.call("bashPrgStart", st, l, d, x.buf(ann), len(ann), x.buf(key), len(key), ret="v")
        trace = [("start", l, d, len(ann), len(key))]

        def lens():
            r = m.r
            return rnd.choice([0, 1, r - 1, r, r + 1, 2 * r, 2 * r - 1, 2 * r + 1, rnd.randrange(0, 3 * r)])

        for _ in range(rnd.randrange(1, 12)):
            ops = ["absorb", "squeeze", "ratchet", "restart", "absorb_c", "squeeze_c"]
            if m.keyed:
                ops += ["encr", "decr", "encr_c", "decr_c"] * 2
            op = rnd.choice(ops)
            n = lens()
            trace.append((op, n))
            if op == "absorb":
                data = rb(n)
                m.absorb(data)
                x.call("bashPrgAbsorb", x.buf(data), n, st, ret="v")
            elif op == "squeeze":
                o = x.out(n)
                x.call("bashPrgSqueeze", o, n, st, ret="v")
                cmp("bashPrgSqueeze", m.squeeze(n), o.read(), trace=list(trace))
            elif op in ("encr", "decr"):
                data = rb(n)
                o = x.buf(data)
                x.call("bashPrgEncr" if op == "encr" else "bashPrgDecr", o, n, st, ret="v")
                cmp("bashPrg" + op.capitalize(), getattr(m, op)(data), o.read(), trace=list(trace))
            elif op == "ratchet":
                m.ratchet()
                x.call("bashPrgRatchet", st, ret="v")
            elif op == "restart":
                a2, k2 = annkey()
                trace[-1] = (op, len(a2), len(k2))
                m.restart(a2, k2)
                x.call("bashPrgRestart", x.buf(a2), len(a2), x.buf(k2), len(k2), st, ret="v")
            else:  # chunked variants
                base = op[:-2]
                cname = "bashPrg" + base.capitalize()
                getattr(m, base + "_start")()
                x.call(cname + "Start", st, ret="v")
                for _ in range(rnd.randrange(0, 5)):
                    k = rnd.choice([0, 1, 7, m.r - m.pos, m.r - m.pos - 1 if m.pos < m.r - 1 else 0, m.r, m.r + 1, rnd.randrange(0, 2 * m.r)])
                    trace.append((base + "_step", k))
                    if base == "absorb":
                        data = rb(k)
                        m.absorb_step(data)
                        x.call(cname + "Step", x.buf(data), k, st, ret="v")
                    elif base == "squeeze":
                        o = x.out(k)
                        x.call(cname + "Step", o, k, st, ret="v")
                        cmp(cname + "Step", m.squeeze_step(k), o.read(), trace=list(trace))
                    else:
                        data = rb(k)
                        o = x.buf(data)
                        x.call(cname + "Step", o, k, st, ret="v")
                        cmp(cname + "Step", getattr(m, base + "_step")(data), o.read(), trace=list(trace))
        # final squeeze compares the whole state history
        o = x.out(64)
        x.call("bashPrgSqueeze", o, 64, st, ret="v")
        cmp("bashPrg final squeeze", m.squeeze(64), o.read(), trace=list(trace))
        x.reset()


def sec_bash():
    x_bash_f()
    x_bash_hash()
    x_bash_prg()


SECTIONS = {"bash": sec_bash}


def new_x():
    """the build cache entry can disappear when /repo changes under us: rebuild and respawn"""
    global x
    import x as xmod
    xmod._dirs.clear()
    x = xmod.X(CONFIG)


def guarded(name, fn, **kw):
    """run one library case; an executor death (ASSERT, sanitizer) is a reported disagreement"""
    for attempt in (0, 1):
        try:
            try:
                return fn()
            finally:
                x.reset()
        except Crash as e:
            bad(name + " CRASH", kind=e.kind, text=e.text[:400], **kw)
            return None
        except (FileNotFoundError, BrokenPipeError):
            if attempt:
                raise
            new_x()


# =========================================================================== brng

def sec_brng():
    import brng
    keep = x.call("brngCTR_keep", ret="z")
    FF = b"\xff"
    special_ivs = [None, bytes(32), FF * 4 + bytes(28), FF * 8 + bytes(24), FF * 16 + bytes(16), FF * 24 + bytes(8),
                   FF * 32, b"\xfe" + FF * 31, b"\xfd" + FF * 31, FF * 8 + b"\xfe" + FF * 23,
                   bytes(8) + FF * 24, FF * 31 + b"\x7f"]

    def ctr_case(iv, lens, tag):
        key = rb(32)
        m = brng.CTR(key, iv)
        st = x.out(keep)
        x.call("brngCTRStart", st, x.buf(key), x.buf(iv) if iv is not None else None, ret="v")
        for n in lens:
            data = rb(n)
            b = x.buf(data)
            x.call("brngCTRStepR", b, n, st, ret="v")
            cmp("brngCTRStepR " + tag, m.step(data), b.read(), key=key, iv=iv, lens=lens, n=n)
            o = x.out(32)
            x.call("brngCTRStepG", o, st, ret="v")
            cmp("brngCTRStepG " + tag, m.get_iv(), o.read(), key=key, iv=iv, lens=lens, n=n)

    for iv in special_ivs:
        for rep in range(12):
            lens = [rnd.randrange(1, 101) for _ in range(rnd.randrange(1, 8))]
            if rep == 0:
                lens = [32, 32, 32, 32]
            if rep == 1:
                lens = [128]
            guarded("brngCTRStepR", lambda: ctr_case(iv, lens, "special iv"), iv=iv, lens=lens)
    for rep in range(200):
        lens = [rnd.choice([0, 1, 31, 32, 33, 64, rnd.randrange(1, 101)]) for _ in range(rnd.randrange(1, 8))]
        iv = rb(32)
        guarded("brngCTRStepR", lambda: ctr_case(iv, lens, "random iv"), iv=iv, lens=lens)

    def ctr_rand_case(iv, n, tag):
        key, data = rb(32), rb(n)
        b, v = x.buf(data), x.buf(iv)
        err = x.call("brngCTRRand", b, n, x.buf(key), v)
        assert err == 0
        cmp("brngCTRRand " + tag, brng.ctr_rand(key, iv, data), (b.read(), v.read()), key=key, iv=iv, n=n)

    for iv in special_ivs[1:]:
        for n in [1, 32, 33, 64, 65, 100]:
            guarded("brngCTRRand", lambda: ctr_rand_case(iv, n, "special iv"), iv=iv, n=n)
    for rep in range(200):
        iv, n = rb(32), rnd.randrange(0, 200)
        guarded("brngCTRRand", lambda: ctr_rand_case(iv, n, "random iv"), iv=iv, n=n)

    hkeep = x.call("brngHMAC_keep", ret="z")

    def hmac_case(klen, ivlen, lens):
        key, iv = rb(klen), rb(ivlen)
        m = brng.HMAC(key, iv)
        st = x.out(hkeep)
        x.call("brngHMACStart", st, x.buf(key), klen, x.buf(iv), ivlen, ret="v")
        for n in lens:
            o = x.out(n)
            x.call("brngHMACStepR", o, n, st, ret="v")
            cmp("brngHMACStepR", m.step(n), o.read(), key=key, iv=iv, lens=lens, n=n)
        n = sum(lens)
        o = x.out(n)
        err = x.call("brngHMACRand", o, n, x.buf(key), klen, x.buf(iv), ivlen)
        assert err == 0
        cmp("brngHMACRand", brng.hmac_rand(key, iv, n), o.read(), key=key, iv=iv, n=n)

    for ivlen in [0, 1, 63, 64, 65, 200]:
        for klen in [0, 1, 31, 32, 33, 64, 65, 100]:
            for rep in range(5):
                lens = [rnd.choice([0, 1, 31, 32, 33, 64, rnd.randrange(1, 101)]) for _ in range(rnd.randrange(1, 8))]
                guarded("brngHMAC", lambda: hmac_case(klen, ivlen, lens), klen=klen, ivlen=ivlen, lens=lens)


SECTIONS["brng"] = sec_brng


# =========================================================================== botp

def cstr(b):
    v = b.read()
    return v.split(b"\0")[0].decode("latin-1") if b"\0" in v else "<unterminated %s>" % v.hex()


def rand_suite():
    """a valid suite drawn from the grammar, with the parsed fields"""
    digit = rnd.choice("456789")
    s = "OCRA-1:HOTP-HBELT-%s:" % digit
    if rnd.random() < 0.5:
        s += "C-"
    qt = rnd.choice("ANH")
    s += "Q%s%02d" % (qt, rnd.choice([4, 8, 10, 32, 63, 64, rnd.randrange(4, 65)]))
    if rnd.random() < 0.5:
        s += "-P" + rnd.choice(["HBELT", "SHA1", "SHA256", "SHA512"])
    if rnd.random() < 0.5:
        s += "-S%03d" % rnd.choice([0, 1, 64, 511, 512, rnd.randrange(0, 513)])
    if rnd.random() < 0.5:
        u = rnd.choice("SMH")
        s += "-T%d%s" % (rnd.randrange(1, 49 if u == "H" else 60), u)
    return s


def mutate(s):
    k = rnd.randrange(4)
    i = rnd.randrange(len(s) + 1)
    alphabet = "OCRA-1:HTPBELSQN0123456789MXac "
    if k == 0 and i < len(s):
        return s[:i] + s[i + 1:]
    if k == 1 and i < len(s):
        return s[:i] + rnd.choice(alphabet) + s[i + 1:]
    if k == 2:
        return s[:i] + rnd.choice(alphabet) + s[i:]
    j = rnd.randrange(len(s) + 1)
    return s[:min(i, j)] + s[max(i, j):]


def sec_botp():
    import botp, belt
    U64 = (1 << 64) - 1
    edge_ctrs = [b"\xff" * 8, b"\xff" * 7 + b"\xfe", bytes(8), bytes(7) + b"\xff", bytes(4) + b"\xff" * 4,
                 b"\x00" + b"\xff" * 7, b"\xff" * 4 + bytes(4), b"\x7f" + b"\xff" * 7]

    # botpCtrNext
    for c in edge_ctrs + [rb(8) for _ in range(100)] + [rb(rnd.randrange(1, 8)) + b"\xff" * 8 for _ in range(50)]:
        c = c[-8:]
        b = x.buf(c)
        x.call("botpCtrNext", b, ret="v")
        cmp("botpCtrNext", botp.ctr_next(c), b.read(), ctr=c)
        x.reset()

    # botpDT, digits 4..9 (10 is documented in the header: probed separately)
    def dt_case(digit, mac):
        o = x.out(digit + 1)
        x.call("botpDT", o, digit, x.buf(mac), len(mac), ret="v")
        cmp("botpDT digit=%d" % digit, botp.dt(mac, digit), cstr(o), mac=mac)

    for digit in range(4, 10):
        for rep in range(60):
            mac = rb(rnd.choice([20, 32, 64, rnd.randrange(20, 65)]))
            if rep < 16:   # every offset, extreme value
                mac = rb(31) + bytes([0xF0 | rep])
                mac = mac[:rep] + (b"\xff\xff\xff\xff" if rep % 2 else b"\x80\x00\x00\x00") + mac[rep + 4:]
            guarded("botpDT", lambda: dt_case(digit, mac), digit=digit, mac=mac)
    for rep in range(20):
        mac = rb(32)
        guarded("botpDT digit=10 (botp.h: 4 <= digit <= 10)", lambda: dt_case(10, mac), digit=10, mac=mac)

    # HOTP
    def hotp_case(digit, klen, ctr):
        key = rb(klen)
        o = x.out(digit + 1)
        err = x.call("botpHOTPRand", o, digit, x.buf(key), klen, x.buf(ctr))
        if 6 <= digit <= 8:
            cmp("botpHOTPRand", (0, botp.hotp(key, ctr, digit)), (err, cstr(o)), key=key, ctr=ctr, digit=digit)
            err = x.call("botpHOTPVerify", x.buf(botp.hotp(key, ctr, digit).encode() + b"\0"), x.buf(key), klen, x.buf(ctr))
            cmp("botpHOTPVerify good", 0, err, key=key, ctr=ctr, digit=digit)
            wrong = "%0*d" % (digit, (int(botp.hotp(key, ctr, digit)) + 1) % 10 ** digit)
            err = x.call("botpHOTPVerify", x.buf(wrong.encode() + b"\0"), x.buf(key), klen, x.buf(ctr))
            cmp("botpHOTPVerify wrong", True, err != 0, key=key, ctr=ctr, digit=digit)
        else:   # botp.h: ERR_BAD_PARAMS unless 6 <= digit <= 8
            cmp("botpHOTPRand bad digit", True, err != 0, digit=digit)

    for digit in range(4, 10):
        for ctr in edge_ctrs + [rb(8) for _ in range(30)]:
            klen = rnd.choice([0, 1, 31, 32, 33, 64, 65, 100])
            guarded("botpHOTPRand", lambda: hotp_case(digit, klen, ctr), digit=digit, ctr=ctr)

    hkeep = x.call("botpHOTP_keep", ret="z")

    def hotp_steps(digit, ctr, n):
        key = rb(32)
        st = x.out(hkeep)
        x.call("botpHOTPStart", st, digit, x.buf(key), 32, ret="v")
        x.call("botpHOTPStepS", st, x.buf(ctr), ret="v")
        c = ctr
        for i in range(n):
            if rnd.random() < 0.5:
                o = x.out(digit + 1)
                x.call("botpHOTPStepR", o, st, ret="v")
                cmp("botpHOTPStepR", botp.hotp(key, c, digit), cstr(o), key=key, ctr=ctr, i=i)
                c = botp.ctr_next(c)
            else:
                good = rnd.random() < 0.5
                otp = botp.hotp(key, c, digit)
                if not good:
                    otp = "%0*d" % (digit, (int(otp) + 1) % 10 ** digit)
                v = x.call("botpHOTPStepV", x.buf(otp.encode() + b"\0"), st, ret="b")
                cmp("botpHOTPStepV", int(good), v, key=key, ctr=ctr, i=i)
                if good:
                    c = botp.ctr_next(c)
            o = x.out(8)
            x.call("botpHOTPStepG", o, st, ret="v")
            cmp("botpHOTPStepG", c, o.read(), key=key, ctr=ctr, i=i)

    for ctr in edge_ctrs + [rb(8) for _ in range(20)]:
        for digit in (6, 7, 8):
            guarded("botpHOTPStep", lambda: hotp_steps(digit, ctr, 5), digit=digit, ctr=ctr)

    # TOTP (t is a time_t: signed 64 bit; TIME_ERR = -1)
    def totp_case(digit, t):
        key = rb(rnd.choice([0, 1, 32, 33, 100]))
        o = x.out(digit + 1)
        err = x.call("botpTOTPRand", o, digit, x.buf(key), len(key), t & U64)
        if t == -1:
            cmp("botpTOTPRand TIME_ERR", True, err != 0, t=t)
        elif 6 <= digit <= 8:
            cmp("botpTOTPRand", (0, botp.totp(key, t, digit)), (err, cstr(o)), key=key, t=t, digit=digit)
            err = x.call("botpTOTPVerify", x.buf(botp.totp(key, t, digit).encode() + b"\0"), x.buf(key), len(key), t & U64)
            cmp("botpTOTPVerify good", 0, err, key=key, t=t, digit=digit)
        else:
            cmp("botpTOTPRand bad digit", True, err != 0, digit=digit)

    for digit in range(4, 10):
        for t in [0, 1, 255, 256, (1 << 31) - 1, 1 << 31, (1 << 32) - 1, 1 << 32, (1 << 63) - 1, -1, -2, -(1 << 63),
                  1449165288 // 60] + [rnd.getrandbits(rnd.randrange(1, 63)) for _ in range(30)]:
            guarded("botpTOTPRand", lambda: totp_case(digit, t), digit=digit, t=t)

    # OCRA: which suites are accepted
    okeep = x.call("botpOCRA_keep", ret="z")

    def suite_case(suite):
        key = rb(32)
        v = x.call("botpOCRAStart", x.out(okeep), x.buf(suite.encode("latin-1") + b"\0"), x.buf(key), 32, ret="b")
        cmp("botpOCRAStart accepts", botp.ocra_suite_valid(suite), bool(v), suite=suite)

    fixed = ["OCRA-1:HOTP-HBELT-%d:QN08" % d for d in range(0, 11)] + [
        "OCRA-1:HOTP-HBELT-10:QN08", "OCRA-1:HOTP-HBELT-0:QN08", "OCRA-1:HOTP-SHA1-6:QN08", "OCRA-1:HOTP-SHA256-8:QN08",
        "OCRA-1:HOTP-HBELT-6:QN03", "OCRA-1:HOTP-HBELT-6:QN04", "OCRA-1:HOTP-HBELT-6:QN64", "OCRA-1:HOTP-HBELT-6:QN65",
        "OCRA-1:HOTP-HBELT-6:QN8", "OCRA-1:HOTP-HBELT-6:QN008", "OCRA-1:HOTP-HBELT-6:QX08", "OCRA-1:HOTP-HBELT-6:C-QH64",
        "OCRA-1:HOTP-HBELT-6:CQN08", "OCRA-1:HOTP-HBELT-6:C-C-QN08", "OCRA-1:HOTP-HBELT-6:C", "OCRA-1:HOTP-HBELT-6:C-",
        "OCRA-1:HOTP-HBELT-6:", "OCRA-1:HOTP-HBELT-6", "", "OCRA-1", "OCRA-2:HOTP-HBELT-6:QN08", "ocra-1:HOTP-HBELT-6:QN08",
        "OCRA-1:HOTP-HBELT-6:QN08-S000", "OCRA-1:HOTP-HBELT-6:QN08-S512", "OCRA-1:HOTP-HBELT-6:QN08-S513",
        "OCRA-1:HOTP-HBELT-6:QN08-S64", "OCRA-1:HOTP-HBELT-6:QN08-S0640", "OCRA-1:HOTP-HBELT-6:QN08-S",
        "OCRA-1:HOTP-HBELT-6:QN08-T0S", "OCRA-1:HOTP-HBELT-6:QN08-T0M", "OCRA-1:HOTP-HBELT-6:QN08-T0H",
        "OCRA-1:HOTP-HBELT-6:QN08-T00H", "OCRA-1:HOTP-HBELT-6:QN08-T1S", "OCRA-1:HOTP-HBELT-6:QN08-T59S",
        "OCRA-1:HOTP-HBELT-6:QN08-T60S", "OCRA-1:HOTP-HBELT-6:QN08-T59M", "OCRA-1:HOTP-HBELT-6:QN08-T60M",
        "OCRA-1:HOTP-HBELT-6:QN08-T48H", "OCRA-1:HOTP-HBELT-6:QN08-T49H", "OCRA-1:HOTP-HBELT-6:QN08-T05S",
        "OCRA-1:HOTP-HBELT-6:QN08-T100S", "OCRA-1:HOTP-HBELT-6:QN08-T1", "OCRA-1:HOTP-HBELT-6:QN08-T", "OCRA-1:HOTP-HBELT-6:QN08-TS",
        "OCRA-1:HOTP-HBELT-6:QN08-T1S-", "OCRA-1:HOTP-HBELT-6:QN08-T1SS", "OCRA-1:HOTP-HBELT-6:QN08-T1S-S064",
        "OCRA-1:HOTP-HBELT-6:QN08-S064-PHBELT", "OCRA-1:HOTP-HBELT-6:QN08-T1M-PSHA1", "OCRA-1:HOTP-HBELT-6:QN08-PSHA1-PSHA1",
        "OCRA-1:HOTP-HBELT-6:QN08-PSHA2", "OCRA-1:HOTP-HBELT-6:QN08-PSHA256", "OCRA-1:HOTP-HBELT-6:QN08-PSHA2560",
        "OCRA-1:HOTP-HBELT-6:QN08-PSHA512", "OCRA-1:HOTP-HBELT-6:QN08-PSHA1", "OCRA-1:HOTP-HBELT-6:QN08-PHBELT",
        "OCRA-1:HOTP-HBELT-6:QN08-PHBELT2", "OCRA-1:HOTP-HBELT-6:QN08-P", "OCRA-1:HOTP-HBELT-6:QN08-Phbelt",
        "OCRA-1:HOTP-HBELT-6:QN08-PSHA1-S064-T1M", "OCRA-1:HOTP-HBELT-6:C-QA10-PSHA512-S512-T48H",
        "OCRA-1:HOTP-HBELT-6:QN08 ", " OCRA-1:HOTP-HBELT-6:QN08", "OCRA-1:HOTP-HBELT-6:QN08\n", "OCRA-1:HOTP-HBELT--6:QN08",
        "OCRA-1:HOTP-HBELT-6::QN08", "OCRA-1::HOTP-HBELT-6:QN08", "OCRA-1:HOTP-HBELT-6:QN08:", "OCRA-1:HOTP-HBELT-66:QN08",
        "OCRA-1:HOTP-HBELT-6:QN٠٨", "OCRA-1:HOTP-HBELT-6:QN08-S²²²",
    ]
    for suite in fixed:
        if all(ord(c) < 256 and c != "\0" for c in suite):
            guarded("botpOCRAStart", lambda: suite_case(suite), suite=suite)
    for rep in range(300):
        suite = rand_suite()
        guarded("botpOCRAStart", lambda: suite_case(suite), suite=suite)
        for _ in range(3):
            suite = mutate(suite)
            if "\0" not in suite:
                guarded("botpOCRAStart", lambda: suite_case(suite), suite=suite)

    # OCRA: passwords
    def rand_q(f):
        n = rnd.choice([4, 2 * f["q_max"], f["q_max"], rnd.randrange(4, 2 * f["q_max"] + 1)])
        alpha = {"A": "abcxyzABCXYZ0123456789", "N": "0123456789", "H": "0123456789ABCDEF"}[f["q_type"]]
        return "".join(rnd.choice(alpha) for _ in range(n)).encode()

    def ocra_data(f):
        ctr = rnd.choice(edge_ctrs + [rb(8)]) if f["c"] else None
        p = rb(f["p_len"]) if f["p_len"] else None
        s = rb(f["s_len"]) if f["s_len"] else None
        t = rnd.choice([0, 1, 1 << 32, (1 << 63) - 1, -2, rnd.getrandbits(40)]) if f["ts"] else None
        return ctr, p, s, t

    B = lambda v: x.buf(v) if v is not None else None

    def ocra_rand_case(suite, unused_ptrs):
        f = botp.ocra_suite_parse(suite)
        key = rb(rnd.choice([0, 1, 32, 33, 100]))
        q = rand_q(f)
        ctr, p, s, t = ocra_data(f)
        o = x.out(f["digit"] + 1)
        # optional parameters not named by the suite: null pointers or (unused_ptrs) junk buffers
        junk = (lambda n: x.buf(rb(n))) if unused_ptrs else (lambda n: None)
        err = x.call("botpOCRARand", o, x.buf(suite.encode() + b"\0"), x.buf(key), len(key), x.buf(q), len(q),
                     B(ctr) if f["c"] else junk(8), B(p) if f["p_len"] else junk(32), B(s) if f["s_len"] else junk(64),
                     (t if t is not None else rnd.choice([0, 5])) & U64)
        want = botp.ocra(suite, key, q, ctr, p, s, t)
        cmp("botpOCRARand" + (" (junk unused ptrs)" if unused_ptrs else " (null unused ptrs)"),
            (0, want), (err, cstr(o)), suite=suite, key=key, q=q, ctr=ctr, p=p, s=s, t=t)
        err = x.call("botpOCRAVerify", x.buf(want.encode() + b"\0"), x.buf(suite.encode() + b"\0"), x.buf(key), len(key),
                     x.buf(q), len(q), B(ctr) if f["c"] else junk(8), B(p) if f["p_len"] else junk(32),
                     B(s) if f["s_len"] else junk(64), (t if t is not None else 0) & U64)
        cmp("botpOCRAVerify good", 0, err, suite=suite)

    for rep in range(400):
        suite = rand_suite()
        up = bool(rep & 1)
        guarded("botpOCRARand", lambda: ocra_rand_case(suite, up), suite=suite, unused_ptrs=up)

    def ocra_steps(suite):
        f = botp.ocra_suite_parse(suite)
        key = rb(32)
        ctr, p, s, _ = ocra_data(f)
        st = x.out(okeep)
        v = x.call("botpOCRAStart", st, x.buf(suite.encode() + b"\0"), x.buf(key), 32, ret="b")
        assert v
        junk = lambda n: x.buf(rb(n))
        x.call("botpOCRAStepS", st, B(ctr) if f["c"] else junk(8), B(p) if f["p_len"] else junk(32),
               B(s) if f["s_len"] else junk(64), ret="v")
        c = ctr
        for i in range(4):
            q = rand_q(f)
            t = rnd.getrandbits(40)
            want = botp.ocra(suite, key, q, c, p, s, t)
            if rnd.random() < 0.6:
                o = x.out(f["digit"] + 1)
                x.call("botpOCRAStepR", o, x.buf(q), len(q), t, st, ret="v")
                cmp("botpOCRAStepR", want, cstr(o), suite=suite, key=key, q=q, ctr=c, p=p, s=s, t=t, i=i)
                advanced = True
            else:
                good = rnd.random() < 0.5
                otp = want if good else "%0*d" % (f["digit"], (int(want) + 1) % 10 ** f["digit"])
                v = x.call("botpOCRAStepV", x.buf(otp.encode() + b"\0"), x.buf(q), len(q), t, st, ret="b")
                cmp("botpOCRAStepV", int(good), v, suite=suite, i=i)
                advanced = good
            if f["c"]:
                if advanced:
                    c = botp.ctr_next(c)
                o = x.out(8)
                x.call("botpOCRAStepG", o, st, ret="v")
                cmp("botpOCRAStepG", c, o.read(), suite=suite, ctr=ctr, i=i)

    for rep in range(300):
        suite = rand_suite()
        guarded("botpOCRAStep", lambda: ocra_steps(suite), suite=suite)

    # botp.h: t != TIME_ERR is required only "if the suite names t"; here it does not
    for suite in ["OCRA-1:HOTP-HBELT-6:QN08", "OCRA-1:HOTP-HBELT-8:C-QA10-PHBELT-S064"]:
        def f():
            fl = botp.ocra_suite_parse(suite)
            key, q = rb(32), b"12345678"
            ctr, p, s, _ = ocra_data(fl)
            o = x.out(fl["digit"] + 1)
            err = x.call("botpOCRARand", o, x.buf(suite.encode() + b"\0"), x.buf(key), 32, x.buf(q), len(q),
                         B(ctr), B(p), B(s), U64)
            cmp("botpOCRARand t=TIME_ERR, suite without T", (0, botp.ocra(suite, key, q, ctr, p, s, None)), (err, cstr(o)), suite=suite)
        guarded("botpOCRARand t=TIME_ERR, suite without T", f, suite=suite)

    # q_len outside 4 .. 2*q_max: ERR_BAD_PARAMS
    for qlen, qmax in [(3, 8), (17, 8), (0, 4), (9, 4), (129, 64)]:
        suite = "OCRA-1:HOTP-HBELT-6:QN%02d" % qmax

        def f():
            err = x.call("botpOCRARand", x.out(7), x.buf(suite.encode() + b"\0"), x.buf(bytes(32)), 32,
                         x.buf(b"1" * qlen), qlen, None, None, None, 0)
            cmp("botpOCRARand bad q_len", True, err != 0, suite=suite, qlen=qlen)
        guarded("botpOCRARand bad q_len", f, qlen=qlen)


SECTIONS["botp"] = sec_botp


def main():
    import subprocess
    want = [a for a in sys.argv[1:] if a in SECTIONS] or list(SECTIONS)
    head = subprocess.run(["git", "-C", "/repo", "log", "--oneline", "-1"], capture_output=True, text=True).stdout.strip()
    print("library: /repo working tree at", head, "| build config", CONFIG)
    for s in want:
        SECTIONS[s]()
    for k in sorted(counts):
        print("%-52s %6d agree" % (k, counts[k]))
    by = {}
    for n, _ in mism:
        by[n] = by.get(n, 0) + 1
    for k in sorted(by):
        print("%-52s %6d DISAGREE" % (k, by[k]))
    print("mismatches: %d" % len(mism))
    x.close()
    return 0 if not mism else 1


if __name__ == "__main__":
    sys.exit(main())
