"""STB 34.101.45 (bign) -- reference model: signatures, key transport, identity-based signatures,
plus the experimental bign96 signature of bee2.

Written from the algorithm definitions of STB 34.101.45-2013 as documented in
/repo/include/bee2/crypto/bign.h (and bign96.h); affine points, Python ints, `pow(x, -1, p)`.

Conventions of the standard
---------------------------
* Octet strings <-> numbers: LITTLE-endian.  <u>_n is the n-bit (n/8 octets) little-endian
  string of the number u;  for a string U, "U as a number" is int.from_bytes(U, 'little').
* Security level l in {128, 192, 256} (96 for bign96).  p, q are 2l-bit primes, p = 3 (mod 4);
  curve y^2 = x^3 + a x + b over GF(p);  base point G = (0, yG), yG = b^((p+1)/4) mod p; G has
  prime order q (cofactor 1).
* Private key d in {1, .., q-1}: l/4 octets.  Public key Q = d G: <xQ>_2l || <yQ>_2l, l/2 octets.
* For a point R, <R>_2l is the first 2l bits of <xR>_2l || <yR>_2l, i.e. <xR>_2l.
* Hash value H: 2l bits (l/4 octets), ANY 2l-bit string is admissible (as a number it may be >= q;
  it is used only modulo q).
* Signature S = S0 || S1, |S0| = l bits (l/8 octets), |S1| = 2l bits (l/4 octets).
* OID(h): DER encoding of the object identifier of the hash algorithm (an input: `oid_der`).

Parameters are passed either as the security level (128/192/256 -> tables B.1-B.3, 96 -> bign96
curve) or as a dict {l, p, a, b, q, yG, [seed]} of ints.

The functions that check inputs return/raise the *name* of the bee2 error code the header
promises ('ERR_BAD_PUBKEY', 'ERR_BAD_SIG', ...), so that verdicts can be compared precisely.
"""
import os
import sys

sys.path.insert(0, os.path.dirname(os.path.abspath(__file__)))
from ec import CurveP  # noqa: E402


def _belt():
    import belt
    return belt


# ---------------------------------------------------------------------------------------------
# octets <-> integers
# ---------------------------------------------------------------------------------------------

def o2i(octets):
    return int.from_bytes(bytes(octets), "little")


def i2o(value, n):
    """<value>_{8n}: n octets, little-endian"""
    return int(value).to_bytes(n, "little")


# ---------------------------------------------------------------------------------------------
# standard parameters (tables B.1, B.2, B.3 of STB 34.101.45; octet strings as printed there,
# i.e. little-endian) and the bign96 curve of bee2
# ---------------------------------------------------------------------------------------------

STD_NAMES = {
    128: "1.2.112.0.2.0.34.101.45.3.1",
    192: "1.2.112.0.2.0.34.101.45.3.2",
    256: "1.2.112.0.2.0.34.101.45.3.3",
    96: "1.2.112.0.2.0.34.101.45.3.0",
}

_TABLES = {
    128: dict(
        p="43FFFFFFFFFFFFFFFFFFFFFFFFFFFFFFFFFFFFFFFFFFFFFFFFFFFFFFFFFFFFFF",
        a="40FFFFFFFFFFFFFFFFFFFFFFFFFFFFFFFFFFFFFFFFFFFFFFFFFFFFFFFFFFFFFF",
        b="F1039CD66B7D2EB253928B976950F54CBEFBD8E4AB3AC1D2EDA8F315156CCE77",
        seed="5E38010000000000",
        q="07663D2699BF5A7EFC4DFB0DD68E5CD9FFFFFFFFFFFFFFFFFFFFFFFFFFFFFFFF",
        yG="936A510418CF291E52F608C4663991785D83D651A3C9E45C9FD616FB3CFCF76B"),
    192: dict(
        p="C3FEFFFFFFFFFFFFFFFFFFFFFFFFFFFFFFFFFFFFFFFFFFFFFFFFFFFFFFFFFFFF"
          "FFFFFFFFFFFFFFFFFFFFFFFFFFFFFFFF",
        a="C0FEFFFFFFFFFFFFFFFFFFFFFFFFFFFFFFFFFFFFFFFFFFFFFFFFFFFFFFFFFFFF"
          "FFFFFFFFFFFFFFFFFFFFFFFFFFFFFFFF",
        b="64BF736823FCA7BC7CBDCEF3F0E2BD143A2E71E9F96A21A696B1FB0FBB482771"
          "D2345D65AB5A073320EF9C95E1DF753C",
        seed="23AF000000000000",
        q="B7A70CF33FDCB73D0AFFA4A6E7DA4680BB7BAF7303C4CC6CFEFFFFFFFFFFFFFF"
          "FFFFFFFFFFFFFFFFFFFFFFFFFFFFFFFF",
        yG="51C433F731CB5EEAF9422A6B273E408455D3B1669EE74905A0FF86DC119A723A"
           "89BF2D437E1130639E9E2EA82482435D"),
    256: dict(
        p="C7FDFFFFFFFFFFFFFFFFFFFFFFFFFFFFFFFFFFFFFFFFFFFFFFFFFFFFFFFFFFFF"
          "FFFFFFFFFFFFFFFFFFFFFFFFFFFFFFFFFFFFFFFFFFFFFFFFFFFFFFFFFFFFFFFF",
        a="C4FDFFFFFFFFFFFFFFFFFFFFFFFFFFFFFFFFFFFFFFFFFFFFFFFFFFFFFFFFFFFF"
          "FFFFFFFFFFFFFFFFFFFFFFFFFFFFFFFFFFFFFFFFFFFFFFFFFFFFFFFFFFFFFFFF",
        b="909C13D6986934097AA2493A272286EA43A2AC878C003329955E24C4B5DC1127"
          "88B0ADDAE313CE1751255DDDEEA9C65B8958FD606A5D8CD8438C3B934459B46C",
        seed="AE17020000000000",
        q="F18E060D49ADFFDC32DF5695E5CA1B36F413212EB0EB6BF24E0098012C09C0B2"
          "FFFFFFFFFFFFFFFFFFFFFFFFFFFFFFFFFFFFFFFFFFFFFFFFFFFFFFFFFFFFFFFF",
        yG="BDEDEFCE6FAE92B7040D4CC9B983AA676122E8EE957377FFD26FFA0EE2DD7369"
           "DACACC001BF8EDD2E2BC61B3B341ABB0AB8FD1A0F7E682B1817603E47AFF26A8"),
    96: dict(
        p="13FFFFFFFFFFFFFFFFFFFFFFFFFFFFFFFFFFFFFFFFFFFFFF",
        a="10FFFFFFFFFFFFFFFFFFFFFFFFFFFFFFFFFFFFFFFFFFFFFF",
        b="834C34644CE8DD6A7A730189888E1887A89823FD25B99931",
        seed="C66C000000000000",
        q="AD1164FDBEEC0B9137D33A65FEFFFFFFFFFFFFFFFFFFFFFF",
        yG="ECCC48F6EB7F21E00C93DA03B21BF9E617C368C14B963881"),
}


def _mk(l):
    d = {k: o2i(bytes.fromhex(v)) for k, v in _TABLES[l].items()}
    d["l"] = l
    return d


PARAMS = {l: _mk(l) for l in (128, 192, 256)}
PARAMS96 = _mk(96)


def std_params(l):
    """the standard parameters of level l as a dict of ints (a fresh copy)"""
    return dict(PARAMS96 if l == 96 else PARAMS[l])


def _P(params):
    if isinstance(params, int):
        return PARAMS96 if params == 96 else PARAMS[params]
    return params


def no_of(params):
    """number of octets of a field element / scalar / hash value: 2l bits"""
    return _P(params)["l"] // 4


def curve(params):
    P = _P(params)
    return CurveP(P["p"], P["a"], P["b"])


def base(params):
    return (0, _P(params)["yG"])


def params_to_struct(params, word_octets=8):
    """octet image of bee2's `bign_params` {size_t l; octet p[64], a[64], b[64], q[64], yG[64];
    octet seed[8]} (unused octets zero)"""
    P = _P(params)
    out = i2o(P["l"], word_octets)
    for k in ("p", "a", "b", "q", "yG"):
        out += i2o(P[k], 64)
    return out + i2o(P.get("seed", 0), 8)


# ---------------------------------------------------------------------------------------------
# parameter generation rule (6.1.3) and validation (6.1.4) -- used by selftest to re-derive
# the tables instead of trusting the copied hex
# ---------------------------------------------------------------------------------------------

def _is_prime(n, rounds=24):
    if n < 2:
        return False
    for sp in (2, 3, 5, 7, 11, 13, 17, 19, 23, 29, 31, 37):
        if n % sp == 0:
            return n == sp
    d, s = n - 1, 0
    while d % 2 == 0:
        d //= 2
        s += 1
    import random
    rnd = random.Random(n & 0xFFFFFFFF)
    for _ in range(rounds):
        a = rnd.randrange(2, n - 1)
        x = pow(a, d, n)
        if x in (1, n - 1):
            continue
        for _ in range(s - 1):
            x = x * x % n
            if x == n - 1:
                break
        else:
            return False
    return True


def derive_b(params):
    """6.1.3: B <- belt-hash(<p>_2l || <a>_2l || seed) || belt-hash(<p>_2l || <a>_2l || seed + 1),
    b <- B mod p  (seed: 64-bit string, seed + 1 modulo 2^64 on the little-endian number)"""
    P = _P(params)
    n = no_of(P)
    h = _belt().hash
    pa = i2o(P["p"], n) + i2o(P["a"], n)
    B = h(pa + i2o(P["seed"], 8)) + h(pa + i2o((P["seed"] + 1) % 2 ** 64, 8))
    return o2i(B) % P["p"]


def params_val(params):
    """6.1.4 (all the checks): sizes, primality, p = 3 mod 4, q != p, MOV condition
    p^m != 1 mod q for m = 1..50, 0 < a, b < p, b derived from seed, b a quadratic residue,
    non-singular, G = (0, b^((p+1)/4)), q G = O"""
    P = _P(params)
    l, p, a, b, q, yG = (P[k] for k in ("l", "p", "a", "b", "q", "yG"))
    if l not in (96, 128, 192, 256):
        return False
    if not (2 ** (2 * l - 1) < p < 2 ** (2 * l) and 2 ** (2 * l - 1) < q < 2 ** (2 * l)):
        return False
    if not (_is_prime(p) and _is_prime(q)) or p % 4 != 3 or p == q:
        return False
    if any(pow(p, m, q) == 1 for m in range(1, 51)):
        return False
    if not (0 < a < p and 0 < b < p):
        return False
    if b != derive_b(P):
        return False
    if pow(b, (p - 1) // 2, p) != 1:
        return False
    E = curve(P)
    if not E.is_nonsingular():
        return False
    if yG != pow(b, (p + 1) // 4, p):
        return False
    return E.is_on((0, yG)) and E.mul(q, (0, yG)) is None


# ---------------------------------------------------------------------------------------------
# object identifiers
# ---------------------------------------------------------------------------------------------

def oid_to_der(oid):
    """DER code of the object identifier "d1.d2...dn" (X.690): tag 0x06, length, the
    subidentifiers 40 d1 + d2, d3, .., dn in base 128 (big-endian, continuation bit 0x80).
    bign.h: n >= 2, d1 in {0,1,2}, d2 < 40 when d1 < 2, every di <= 2^32 - 1, no leading zeros
    in the string.  Returns None for an incorrect identifier."""
    parts = oid.split(".")
    if len(parts) < 2:
        return None
    ds = []
    for s in parts:
        if not s.isdigit() or not s.isascii() or (len(s) > 1 and s[0] == "0"):
            return None
        v = int(s)
        if v > 2 ** 32 - 1:
            return None
        ds.append(v)
    if ds[0] > 2 or (ds[0] < 2 and ds[1] >= 40):
        return None
    first = 40 * ds[0] + ds[1]
    if first > 2 ** 32 - 1:
        return None
    body = b""
    for v in [first] + ds[2:]:
        chunk = [v & 0x7F]
        v >>= 7
        while v:
            chunk.append(0x80 | (v & 0x7F))
            v >>= 7
        body += bytes(reversed(chunk))
    n = len(body)
    if n < 128:
        ln = bytes([n])
    else:
        lb = n.to_bytes((n.bit_length() + 7) // 8, "big")
        ln = bytes([0x80 | len(lb)]) + lb
    return b"\x06" + ln + body


def oid_from_der(der):
    """inverse of oid_to_der: the string "d1.d2...dn", or None when `der` is not the DER code of
    an admissible object identifier (exactly: tag 06, minimal definite length that covers the
    rest of the string, at least one subidentifier, every subidentifier complete and without a
    leading 0x80 octet, every di <= 2^32 - 1)"""
    der = bytes(der)
    if len(der) < 2 or der[0] != 0x06:
        return None
    if der[1] < 0x80:
        n, pos = der[1], 2
    else:
        k = der[1] & 0x7F
        if k == 0 or len(der) < 2 + k or der[2] == 0:
            return None
        n, pos = int.from_bytes(der[2:2 + k], "big"), 2 + k
        if n < 128:
            return None                     # not the minimal length form
    body = der[pos:]
    if len(body) != n or n == 0:
        return None
    if body[-1] & 0x80:
        return None                         # last subidentifier is truncated
    sids, v, start = [], 0, True
    for o in body:
        if start and o == 0x80:
            return None
        v = (v << 7) | (o & 0x7F)
        start = False
        if not o & 0x80:
            sids.append(v)
            v, start = 0, True
    first = sids[0]
    d1 = 0 if first < 40 else 1 if first < 80 else 2
    ds = [d1, first - 40 * d1] + sids[1:]
    if any(d > 2 ** 32 - 1 for d in ds):
        return None
    return ".".join(str(d) for d in ds)


def oid_der_is_valid(der):
    return oid_from_der(der) is not None


# ---------------------------------------------------------------------------------------------
# random numbers from a tape
# ---------------------------------------------------------------------------------------------

MAX_TRIES = 65     # bee2: B_PER_IMPOSSIBLE = 64 retries after the first attempt


def rand_nz_mod_from_tape(mod, tape, pos=0):
    """u <-R {1, .., mod - 1} the way bee2's zzRandNZMod draws it from a generator that returns
    the octets of `tape`: read O_OF_B(bitlen(mod)) octets, little-endian number, keep the low
    bitlen(mod) bits, accept iff 0 < u < mod, otherwise read the next chunk.
    After 65 rejected chunks zzRandNZMod gives up (the callers return ERR_BAD_RNG): None.
    Returns (u or None, number of tape octets consumed).  The tape must be long enough."""
    bits = mod.bit_length()
    n = (bits + 7) // 8
    used = 0
    for _ in range(MAX_TRIES):
        chunk = tape[pos + used:pos + used + n]
        if len(chunk) < n:
            raise ValueError("tape exhausted")
        used += n
        u = o2i(chunk) & ((1 << bits) - 1)
        if 0 < u < mod:
            return u, used
    return None, used


# ---------------------------------------------------------------------------------------------
# keys
# ---------------------------------------------------------------------------------------------

def point_to_octets(params, Pt):
    n = no_of(params)
    return i2o(Pt[0], n) + i2o(Pt[1], n)


def point_from_octets(params, octets):
    """(x, y) as numbers, WITHOUT any check"""
    n = no_of(params)
    octets = bytes(octets)
    assert len(octets) == 2 * n
    return (o2i(octets[:n]), o2i(octets[n:]))


def privkey_is_valid(params, d):
    return 0 < d < _P(params)["q"]


def pubkey_calc(params, d):
    """Q = d G for a valid private key 0 < d < q (bignPubkeyCalc); the point (x, y)"""
    if not privkey_is_valid(params, d):
        raise ValueError("ERR_BAD_PRIVKEY")
    return curve(params).mul(d, base(params))


def keypair_from_tape(params, tape, mod="q"):
    """Key pair generation, algorithm 6.2.2:   d <-R {1, 2, .., q - 1},  Q <- d G.

    THE STANDARD: d is uniform on {1, .., q-1} -- the range is defined by the group order q.
    This model (mod='q') draws d with the library's sampling routine zzRandNZMod *modulo q*
    (see rand_nz_mod_from_tape).  Returns (d, Q, consumed octets); (None, None, consumed) if
    65 chunks in a row are rejected.

    THE LIBRARY (bign_misc.c bignKeypairGen, bign96.c bign96KeypairGen) calls
    zzRandNZMod(d, ec->f->mod, ..): the bound is the FIELD modulus p, not q.  On the standard
    curves q < p, so a chunk u with q <= u < p is accepted by the library and yields an invalid
    private key d >= q (d = q gives Q = O).  mod='p' reproduces that behaviour."""
    P = _P(params)
    d, used = rand_nz_mod_from_tape(P[mod], tape)
    if d is None:
        return None, None, used
    return d, curve(P).mul(d, base(P)), used


def pubkey_val(params, Q_octets):
    """6.2.3: Q = <x>_2l || <y>_2l is valid iff x < p, y < p and y^2 = x^3 + a x + b (mod p)"""
    P = _P(params)
    if len(Q_octets) != 2 * no_of(P):
        return False
    return curve(P).is_on(point_from_octets(P, Q_octets))


def keypair_val(params, d, Q):
    """bignKeypairVal: 0 < d < q and Q == d G   (Q: point or octets)"""
    P = _P(params)
    if not privkey_is_valid(P, d):
        return False
    if isinstance(Q, (bytes, bytearray)):
        if len(Q) != 2 * no_of(P):
            return False
        Q = point_from_octets(P, Q)
    return curve(P).mul(d, base(P)) == Q


def dh(params, d, Q_octets, key_len):
    """bignDH: the first key_len octets of <x>_2l || <y>_2l of the point d Q, key_len <= l/2.
    Q must be a valid public key (6.2.3), d a valid private key."""
    P = _P(params)
    if key_len > 2 * no_of(P):
        raise ValueError("ERR_BAD_SHAREDKEY")
    if not privkey_is_valid(P, d):
        raise ValueError("ERR_BAD_PRIVKEY")
    if not pubkey_val(P, Q_octets):
        raise ValueError("ERR_BAD_PUBKEY")
    S = curve(P).mul(d, point_from_octets(P, Q_octets))
    assert S is not None            # q is prime, 0 < d < q, Q != O
    return point_to_octets(P, S)[:key_len]


# ---------------------------------------------------------------------------------------------
# signature: 7.1.3, 7.1.4, 6.3.3
# ---------------------------------------------------------------------------------------------

def _s0_len(P):
    """octets of S0: l bits; bign96 shortens S0 to 80 bits"""
    return 10 if P["l"] == 96 else P["l"] // 8


# bign96: "the multiplier is S0 + 2^l" according to bign96.h / the comments of bign96.c
# (bign with l = 96 and a shorter S0), but the code of bign96Sign/Sign2/Verify sets octet 12
# of the 13-octet multiplier to 0x80, i.e. uses S0 + 2^103.  See `top_bit`.
BIGN96_TOP_BIT_DOC = 96
BIGN96_TOP_BIT_LIB = 103


def _top(P, top_bit):
    if top_bit is not None:
        return top_bit
    return P["l"]


def _check_sign_inputs(P, oid_der, H, d):
    if not oid_der_is_valid(oid_der):
        raise ValueError("ERR_BAD_OID")
    if len(H) != no_of(P):
        raise ValueError("hash length")
    if not privkey_is_valid(P, d):
        raise ValueError("ERR_BAD_PRIVKEY")


def sign(params, oid_der, H, d, k, top_bit=None):
    """Algorithm 7.1.3 with the one-time key k given explicitly (0 < k < q):
        R  <- k G
        S0 <- <belt-hash(OID(h) || <R>_2l || H)>_l
        S1 <- <(k - H - (S0 + 2^l) d) mod q>_2l          (H, S0 as numbers)
        S  <- S0 || S1
    H is any 2l-bit string (it may exceed q as a number)."""
    P = _P(params)
    H = bytes(H)
    _check_sign_inputs(P, oid_der, H, d)
    q = P["q"]
    if not 0 < k < q:
        raise ValueError("bad one-time key")
    n = no_of(P)
    R = curve(P).mul(k, base(P))
    S0 = _belt().hash(bytes(oid_der) + i2o(R[0], n) + H)[:_s0_len(P)]
    s1 = (k - o2i(H) - (o2i(S0) + 2 ** _top(P, top_bit)) * d) % q
    return S0 + i2o(s1, n)


def sign_from_tape(params, oid_der, H, d, tape, top_bit=None):
    """7.1.3 with k <-R {1, .., q-1} drawn from the tape as zzRandNZMod(q) does.
    Returns (signature, consumed); ('ERR_BAD_RNG', consumed) when 65 chunks are rejected."""
    P = _P(params)
    _check_sign_inputs(P, oid_der, bytes(H), d)
    k, used = rand_nz_mod_from_tape(P["q"], tape)
    if k is None:
        return "ERR_BAD_RNG", used
    return sign(P, oid_der, H, d, k, top_bit), used


def genk(params, oid_der, d, H, t=None, reset_counter=False):
    """Algorithm 6.3.3, deterministic one-time key (l in {128, 192, 256}):
        n <- l / 64 (number of 128-bit blocks of H),  theta <- belt-hash(OID(h) || <d>_2l || t),
        r <- H,  for i = 1, 2, ...:
            s <- r1 ^ .. ^ r_{n-1};  r <- r2 || .. || r_{n-1} || (belt-block(s, theta) ^ <i>_128 ^ rn) || s
            if i is a multiple of 2n and r (as a number) is in {1, .., q-1}: return k = r
    i.e. belt-wblock is applied again and again to r, and the round counter i is NOT restarted
    between the applications (that is what bee2's beltWBLStepR exists for, see belt.h).
    reset_counter=True gives the variant that restarts i from 1 for every application
    (this is what bignSign2 of the examined tree does: it calls beltWBLStepE).
    Returns (k, number of belt-wblock applications)."""
    P = _P(params)
    belt = _belt()
    nb = no_of(P)
    H = bytes(H)
    assert len(H) == nb and nb % 16 == 0
    n = nb // 16
    theta = belt.hash(bytes(oid_der) + i2o(d, nb) + (bytes(t) if t is not None else b""))
    r = [H[16 * j:16 * j + 16] for j in range(n)]
    i = 0
    apps = 0
    while True:
        i += 1
        s = r[0]
        for j in range(1, n - 1):
            s = _xor(s, r[j])
        ctr = (i - 1) % (2 * n) + 1 if reset_counter else i
        new = _xor(_xor(belt.block_encr(theta, s), i2o(ctr, 16)), r[n - 1])
        r = r[1:n - 1] + [new, s]
        if i % (2 * n) == 0:
            apps += 1
            k = o2i(b"".join(r))
            if 0 < k < P["q"]:
                return k, apps


def _xor(a, b):
    assert len(a) == len(b)
    return bytes(x ^ y for x, y in zip(a, b))


def sign2(params, oid_der, H, d, t=None, reset_counter=False):
    """bignSign2: 7.1.3 with k produced by 6.3.3 from (OID(h), d, H, t);  t = None: no extra data"""
    P = _P(params)
    _check_sign_inputs(P, oid_der, bytes(H), d)
    k, _ = genk(P, oid_der, d, H, t, reset_counter)
    return sign(P, oid_der, H, d, k)


def verify_code(params, oid_der, H, sig, Q_octets, top_bit=None):
    """Algorithm 7.1.4.  Input: H (2l bits), S (3l bits), public key Q.
        1. S = S0 || S1, |S0| = l, |S1| = 2l               (wrong length: reject)
        2. S1 >= q (as a number): reject
        3. R <- ((S1 + H) mod q) G + (S0 + 2^l) Q
        4. R = O: reject
        5. t <- <belt-hash(OID(h) || <R>_2l || H)>_l
        6. S0 != t: reject;  accept
    The algorithm is defined for a VALID public key Q (a point of the curve other than O,
    6.2.3); bign.h promises ERR_BAD_PUBKEY otherwise, so an invalid Q is rejected up front.
    Returns 'ERR_OK' / 'ERR_BAD_OID' / 'ERR_BAD_PUBKEY' / 'ERR_BAD_SIG'."""
    P = _P(params)
    n = no_of(P)
    n0 = _s0_len(P)
    H, sig = bytes(H), bytes(sig)
    if not oid_der_is_valid(oid_der):
        return "ERR_BAD_OID"
    assert len(H) == n
    if not pubkey_val(P, Q_octets):
        return "ERR_BAD_PUBKEY"
    if len(sig) != n0 + n:
        return "ERR_BAD_SIG"
    S0, s1 = sig[:n0], o2i(sig[n0:])
    q = P["q"]
    if s1 >= q:
        return "ERR_BAD_SIG"
    E = curve(P)
    Q = point_from_octets(P, Q_octets)
    R = E.add(E.mul((s1 + o2i(H)) % q, base(P)), E.mul(o2i(S0) + 2 ** _top(P, top_bit), Q))
    if R is None:
        return "ERR_BAD_SIG"
    t = _belt().hash(bytes(oid_der) + i2o(R[0], n) + H)[:n0]
    return "ERR_OK" if t == S0 else "ERR_BAD_SIG"


def verify(params, oid_der, H, sig, Q_octets, top_bit=None):
    return verify_code(params, oid_der, H, sig, Q_octets, top_bit) == "ERR_OK"


# ---------------------------------------------------------------------------------------------
# key transport: 7.2.3, 7.2.4
# ---------------------------------------------------------------------------------------------

def key_wrap(params, key, header, Q_octets, k):
    """Algorithm 7.2.3 with the one-time key k given explicitly.  key: >= 16 octets,
    header: 16 octets (None = 16 zero octets), Q: valid public key of the recipient.
        R <- k G,  theta <- <k Q>_256 (the first 32 octets of <x>_2l of the point k Q),
        Y <- belt-keywrap(key, header, theta),  token <- <R>_2l || Y       (l/4 + len + 16 octets)"""
    P = _P(params)
    key = bytes(key)
    if len(key) < 16 or (header is not None and len(header) != 16):
        raise ValueError("ERR_BAD_INPUT")
    if not pubkey_val(P, Q_octets):
        raise ValueError("ERR_BAD_PUBKEY")
    if not 0 < k < P["q"]:
        raise ValueError("bad one-time key")
    E = curve(P)
    n = no_of(P)
    R = E.mul(k, base(P))
    T = E.mul(k, point_from_octets(P, Q_octets))
    theta = i2o(T[0], n)[:32]
    return i2o(R[0], n) + _belt().kwp_wrap(theta, header, key)


def key_wrap_from_tape(params, key, header, Q_octets, tape):
    P = _P(params)
    k, used = rand_nz_mod_from_tape(P["q"], tape)
    if k is None:
        return "ERR_BAD_RNG", used
    return key_wrap(P, key, header, Q_octets, k), used


def key_unwrap(params, token, header, d):
    """Algorithm 7.2.4.  Returns the transported key, or None (ERR_BAD_KEYTOKEN) when
        the token is shorter than l/4 + 32 octets,  xR = <first l/4 octets> >= p,
        t = xR^3 + a xR + b is not a square (yR <- t^((p+1)/4), yR^2 != t),
        or belt-keyunwrap(Y, header, theta) fails, theta = <d (xR, yR)>_256."""
    P = _P(params)
    token = bytes(token)
    n = no_of(P)
    if not privkey_is_valid(P, d):
        raise ValueError("ERR_BAD_PRIVKEY")
    if header is not None and len(header) != 16:
        raise ValueError("ERR_BAD_INPUT")
    if len(token) < n + 32:
        return None
    p = P["p"]
    x = o2i(token[:n])
    if x >= p:
        return None
    t = (x ** 3 + P["a"] * x + P["b"]) % p
    y = pow(t, (p + 1) // 4, p)
    if y * y % p != t:
        return None
    T = curve(P).mul(d, (x, y))
    assert T is not None
    theta = i2o(T[0], n)[:32]
    return _belt().kwp_unwrap(theta, header, token[n:])


# ---------------------------------------------------------------------------------------------
# identity-based signature: appendix B (B.2.3, B.2.4, B.2.5)
# ---------------------------------------------------------------------------------------------

def id_extract(params, oid_der, id_hash, sig, Q_octets):
    """B.2.3: from the signature sig = S0 || S1 of the identifier (hash value H0 = id_hash) made
    by the trusted party with public key Q:  verify it as in 7.1.4 computing
        e <- (S1 + H0) mod q,  R <- e G + (S0 + 2^l) Q,
    and return (e, R): the private key (number) and the public key (point) of the identity.
    Returns the error name ('ERR_BAD_SIG', ..) instead when the signature is not valid."""
    P = _P(params)
    code = verify_code(P, oid_der, id_hash, sig, Q_octets)
    if code != "ERR_OK":
        return code
    n = no_of(P)
    sig = bytes(sig)
    S0, s1 = sig[:n // 2], o2i(sig[n // 2:])
    E = curve(P)
    e = (s1 + o2i(id_hash)) % P["q"]
    R = E.add(E.mul(e, base(P)), E.mul(o2i(S0) + 2 ** P["l"], point_from_octets(P, Q_octets)))
    return e, R


def id_sign(params, oid_der, id_hash, H, e, k):
    """B.2.4 with explicit one-time key k:  V <- k G,
        S0 <- <belt-hash(OID(h) || <V>_2l || H0 || H)>_l,  S1 <- <(k - H - (S0 + 2^l) e) mod q>_2l
    e: the private key from id_extract, 0 <= e < q (e = 0 is possible)."""
    P = _P(params)
    n = no_of(P)
    q = P["q"]
    id_hash, H = bytes(id_hash), bytes(H)
    if not oid_der_is_valid(oid_der):
        raise ValueError("ERR_BAD_OID")
    assert len(id_hash) == n and len(H) == n
    if not 0 <= e < q:
        raise ValueError("ERR_BAD_PRIVKEY")
    if not 0 < k < q:
        raise ValueError("bad one-time key")
    V = curve(P).mul(k, base(P))
    S0 = _belt().hash(bytes(oid_der) + i2o(V[0], n) + id_hash + H)[:n // 2]
    s1 = (k - o2i(H) - (o2i(S0) + 2 ** P["l"]) * e) % q
    return S0 + i2o(s1, n)


def id_sign_from_tape(params, oid_der, id_hash, H, e, tape):
    P = _P(params)
    k, used = rand_nz_mod_from_tape(P["q"], tape)
    if k is None:
        return "ERR_BAD_RNG", used
    return id_sign(P, oid_der, id_hash, H, e, k), used


def id_sign2(params, oid_der, id_hash, H, e, t=None, reset_counter=False):
    """bignIdSign2: B.2.4 with k from 6.3.3 computed on (OID(h), e, H, t)"""
    P = _P(params)
    if not 0 <= e < P["q"]:
        raise ValueError("ERR_BAD_PRIVKEY")
    k, _ = genk(P, oid_der, e, H, t, reset_counter)
    return id_sign(P, oid_der, id_hash, H, e, k)


def id_verify_code(params, oid_der, id_hash, H, id_sig, id_pubkey, Q_octets):
    """B.2.5:  S1 >= q: reject;   t <- <belt-hash(OID(h) || <R>_2l || H0)>_l  (R = id_pubkey),
        V <- ((S1 + H) mod q) G + (S0 + 2^l) R - ((S0 + 2^l)(t + 2^l) mod q) Q;  V = O: reject;
        accept iff S0 == <belt-hash(OID(h) || <V>_2l || H0 || H)>_l.
    Both public keys must be valid points (ERR_BAD_PUBKEY)."""
    P = _P(params)
    n = no_of(P)
    q = P["q"]
    id_hash, H, id_sig = bytes(id_hash), bytes(H), bytes(id_sig)
    if not oid_der_is_valid(oid_der):
        return "ERR_BAD_OID"
    if not pubkey_val(P, id_pubkey) or not pubkey_val(P, Q_octets):
        return "ERR_BAD_PUBKEY"
    if len(id_sig) != n // 2 + n:
        return "ERR_BAD_SIG"
    S0, s1 = id_sig[:n // 2], o2i(id_sig[n // 2:])
    if s1 >= q:
        return "ERR_BAD_SIG"
    h = _belt().hash
    E = curve(P)
    R = point_from_octets(P, id_pubkey)
    Q = point_from_octets(P, Q_octets)
    t = o2i(h(bytes(oid_der) + i2o(R[0], n) + id_hash)[:n // 2])
    two_l = 2 ** P["l"]
    c = (o2i(S0) + two_l) * (t + two_l) % q
    V = E.add(E.mul((s1 + o2i(H)) % q, base(P)), E.mul(o2i(S0) + two_l, R))
    V = E.sub(V, E.mul(c, Q))
    if V is None:
        return "ERR_BAD_SIG"
    t2 = h(bytes(oid_der) + i2o(V[0], n) + id_hash + H)[:n // 2]
    return "ERR_OK" if t2 == S0 else "ERR_BAD_SIG"


def id_verify(params, oid_der, id_hash, H, id_sig, id_pubkey, Q_octets):
    return id_verify_code(params, oid_der, id_hash, H, id_sig, id_pubkey, Q_octets) == "ERR_OK"


# ---------------------------------------------------------------------------------------------
# bign96 (bee2 experimental): bign with l = 96, S0 of 80 bits, belt-32block instead of belt-wblock
# in the deterministic one-time key.  Sizes: keys/hash 24 octets, public key 48, signature 34.
# ---------------------------------------------------------------------------------------------

def _block32_round3(theta, x, first_round):
    """belt-32block (STB 34.101.31-2020, auxiliary algorithm of belt-fmt) on the 192-bit block
    r = r1 || r2 || r3 (64-bit parts), three rounds with the counters i = first_round, +1, +2:
        (r2 || r3) <- belt-block(r2 || r3, theta) ^ <i>_128;  r1 <- r1 ^ r2;  r <- r2 || r3 || r1"""
    belt = _belt()
    r1, r2, r3 = x[:8], x[8:16], x[16:24]
    for i in range(first_round, first_round + 3):
        tt = _xor(belt.block_encr(theta, r2 + r3), i2o(i, 16))
        r2, r3 = tt[:8], tt[8:]
        r1 = _xor(r1, r2)
        r1, r2, r3 = r2, r3, r1
    return r1 + r2 + r3


def genk96(oid_der, d, H, t=None, params=96):
    """bign96Sign2's one-time key: theta <- belt-hash(OID(h) || <d>_192 || t), r <- H (24 octets),
    repeat r <- belt-32block(r, theta) until r in {1..q-1}; the round counter of belt-32block is
    not restarted (1,2,3, then 4,5,6, ...) -- stated in bign96.c.  Returns (k, applications)."""
    P = _P(params)
    theta = _belt().hash(bytes(oid_der) + i2o(d, 24) + (bytes(t) if t is not None else b""))
    r = bytes(H)
    assert len(r) == 24
    apps = 0
    while True:
        r = _block32_round3(theta, r, 1 + 3 * apps)
        apps += 1
        k = o2i(r)
        if 0 < k < P["q"]:
            return k, apps


def sign96(oid_der, H, d, k, top_bit=BIGN96_TOP_BIT_DOC, params=96):
    """bign96Sign with explicit k.  S0 = first 80 bits of the hash value; S1 = (k - H - (S0 + 2^top_bit) d) mod q.
    top_bit = 96 is what bign96.h / the code comments say (2^l); the code uses 2^103
    (BIGN96_TOP_BIT_LIB) -- the vectors of bign96_test.c only pass with 103."""
    return sign(_P(params), oid_der, H, d, k, top_bit)


def sign96_from_tape(oid_der, H, d, tape, top_bit=BIGN96_TOP_BIT_DOC, params=96):
    return sign_from_tape(_P(params), oid_der, H, d, tape, top_bit)


def sign96_2(oid_der, H, d, t=None, top_bit=BIGN96_TOP_BIT_DOC, params=96):
    P = _P(params)
    _check_sign_inputs(P, oid_der, bytes(H), d)
    k, _ = genk96(oid_der, d, H, t, P)
    return sign(P, oid_der, H, d, k, top_bit)


def verify96_code(oid_der, H, sig, Q_octets, top_bit=BIGN96_TOP_BIT_DOC, params=96):
    return verify_code(_P(params), oid_der, H, sig, Q_octets, top_bit)


def verify96(oid_der, H, sig, Q_octets, top_bit=BIGN96_TOP_BIT_DOC, params=96):
    return verify96_code(oid_der, H, sig, Q_octets, top_bit, params) == "ERR_OK"


def keypair96_from_tape(tape, mod="q"):
    return keypair_from_tape(PARAMS96, tape, mod)


# ---------------------------------------------------------------------------------------------
# selftest: every vector of /repo/test/crypto/bign_test.c and bign96_test.c
# ---------------------------------------------------------------------------------------------

class _CtrX:
    """brngCTRX of the tests: brng-ctr whose additional words are taken cyclically from X"""

    def __init__(self, key, iv, X):
        import brng
        self.g = brng.CTR(key, iv)
        self.X, self.off = bytes(X), 0

    def step(self, count):
        buf = b""
        while len(buf) < count:
            take = min(count - len(buf), len(self.X) - self.off)
            buf += self.X[self.off:self.off + take]
            self.off = (self.off + take) % len(self.X)
        return self.g.step(buf)


def selftest(slow=False, verbose=False):
    belt = _belt()
    Hs = bytes(belt.H)                  # beltH(): the 256 octets of the belt S-box
    assert len(Hs) == 256 and Hs[:4] == bytes.fromhex("B194BAC8")
    hx = bytes.fromhex

    # tables B.1, B.2, B.3 and the bign96 curve: re-derived by 6.1.3 / checked by 6.1.4
    assert PARAMS[128]["p"] == 2 ** 256 - 189 and PARAMS[128]["a"] == 2 ** 256 - 192
    assert PARAMS[192]["p"] == 2 ** 384 - 317 and PARAMS[192]["a"] == 2 ** 384 - 320
    assert PARAMS[256]["p"] == 2 ** 512 - 569 and PARAMS[256]["a"] == 2 ** 512 - 572
    for l in (96, 128, 192, 256):
        assert params_val(l), l
        assert len(params_to_struct(l)) == 8 + 5 * 64 + 8
    bad = std_params(128)
    bad["seed"] += 1
    assert not params_val(bad)

    # OID
    oid = oid_to_der("1.2.112.0.2.0.34.101.31.81")
    assert oid == hx("06092A7000020022651F51") and len(oid) == 11
    assert oid_from_der(oid) == "1.2.112.0.2.0.34.101.31.81"
    for s in ("2.999.4294967295", "0.39", "1.0.128.16384"):
        assert oid_from_der(oid_to_der(s)) == s
    for s in ("3.1", "1.40", "1", "1.02", "1.2.4294967296", "1..2", ""):
        assert oid_to_der(s) is None
    for bad_der in (b"", b"\x06", b"\x06\x00", b"\x06\x01\x81", b"\x06\x02\x80\x01", b"\x05\x01\x01",
                    b"\x06\x01\x01\x00", b"\x06\x02\x01", b"\x06\x81\x01\x01",
                    b"\x06\x06\x2A\x90\x80\x80\x80\x00"):
        assert not oid_der_is_valid(bad_der), bad_der

    # ---- bign_test.c
    l = 128
    P = PARAMS[l]
    q = P["q"]
    rng = _CtrX(Hs[128:160], Hs[192:224], Hs)
    # G.1 (key pair)
    tape = rng.step(32)
    d, Q, used = keypair_from_tape(l, tape)
    assert used == 32 and keypair_from_tape(l, tape, "p")[0] == d
    assert i2o(d, 32) == hx("1F66B5B84B7339674533F0329C74F21834281FED0732429E0C79235FC273E269")
    Qo = point_to_octets(l, Q)
    assert Qo == hx("BD1A5650179D79E03FCEE49D4C2BD5DDF54CE46D0CF11E4FF87BF7A890857FD0"
                    "7AC6A60361E8C8173491686D461B2826190C2EDA5909054A9AB84D2AB9D99A90")
    assert keypair_val(l, d, Qo) and keypair_val(l, d, Q) and pubkey_val(l, Qo)
    assert not keypair_val(l, d + 1, Qo) and not keypair_val(l, q, Qo) and not keypair_val(l, 0, Qo)
    assert pubkey_calc(l, d) == Q
    assert dh(l, d, point_to_octets(l, base(l)), 64) == Qo
    assert dh(l, d, point_to_octets(l, base(l)), 33) == Qo[:33]
    # G.2 (signature)
    H = belt.hash(Hs[:13])
    sig, used = sign_from_tape(l, oid, H, d, rng.step(32))
    assert used == 32
    assert sig == hx("E36B7F0377AE4C524027C387FADF1B20CE72F1530B71F2B5FD3A8C584FE2E1AED20082E30C8AF65011F4FB54649DFD3D")
    assert verify(l, oid, H, sig, Qo)
    assert not verify(l, oid, H, bytes([sig[0] ^ 1]) + sig[1:], Qo)
    assert verify_code(l, oid, H, sig, bytes([Qo[0] ^ 1]) + Qo[1:]) != "ERR_OK"
    sig_g2 = sig
    # G.8 (identity keys)
    id_hash = H
    e, R = id_extract(l, oid, id_hash, sig, Qo)
    Ro = point_to_octets(l, R)
    assert Ro == hx("CCEEF1A313A406649D15DA0A851D486A695B641B20611776252FFDCE39C71060"
                    "7C9EA1F33C23D20DFCB8485A88BE6523A28ECC3215B47FA289D6C9BE1CE837C0")
    assert i2o(e, 32) == hx("79628979DF369BEB94DEF3299476AED414F39148AA69E31A7397E8AA70578AB3")
    assert id_extract(l, oid, id_hash, bytes([sig[0] ^ 1]) + sig[1:], Qo) == "ERR_BAD_SIG"
    # G.4 (key transport, 18 octets)
    tok, used = key_wrap_from_tape(l, Hs[:18], Hs[32:48], Qo, rng.step(32))
    assert tok == hx("9B4EA669DABDF100A7D4B6E6EB76EE5251912531F426750AAC8A9DBB51C54D8D"
                     "EB9289B50A46952D0531861E45A8814B008FDC65DE9FF1FA2A1F16B6A280E957A814")
    assert key_unwrap(l, tok, Hs[32:48], d) == Hs[:18]
    assert key_unwrap(l, tok, Hs[33:49], d) is None and key_unwrap(l, tok, None, d) is None
    assert key_unwrap(l, tok[:-1] + bytes([tok[-1] ^ 1]), Hs[32:48], d) is None
    # G.3
    H = belt.hash(Hs[:48])
    sig, used = sign_from_tape(l, oid, H, d, rng.step(32))
    assert sig == hx("47A63C8B9C936E94B5FAB3D9CBD78366290F3210E163EEC8DB4E921E8479D4138F112CC23E6DCE65EC5FF21DF4231C28")
    assert verify(l, oid, H, sig, Qo)
    # G.5 (key transport, 32 octets)
    tok, used = key_wrap_from_tape(l, Hs[:32], Hs[64:80], Qo, rng.step(32))
    assert tok == hx("4856093A0F6C13015FC8E15F1B23A76202D2F4BA6E5EC52B78658477F6486DE6"
                     "87AFAEEA0EF7BC1326A7DCE7A10BA10E3F91C0126044B22267BF30BD6F1DA29E"
                     "0647CF39C1D59A56BB0194E0F4F8A2BB")
    assert key_unwrap(l, tok, Hs[64:80], d) == Hs[:32]
    # G.6 (deterministic one-time key; the test recovers k from the signature)
    H = belt.hash(Hs[:13])
    k, apps = genk(l, oid, d, H)
    assert apps == 1 and i2o(k, 32) == hx("829614D8411DBBC4E1F2471A4004586440FD8C9553FAB6A1A45CE417AE97111E")
    sig = sign2(l, oid, H, d)
    assert (o2i(sig[16:]) + (o2i(sig[:16]) + 2 ** 128) * d + o2i(H)) % q == k
    assert verify(l, oid, H, sig, Qo)
    # one application of 6.3.3 == belt-wblock on H under theta
    theta = belt.hash(oid + i2o(d, 32))
    assert belt.wbl_encr(theta, H) == i2o(k, 32)
    # G.7 (with additional data t)
    H = belt.hash(Hs[:48])
    k, apps = genk(l, oid, d, H, Hs[192:192 + 23])
    assert apps == 1 and i2o(k, 32) == hx("7ADC8713283EBFA547A2AD9CDFB245AE0F7B968DF0F91CB785D1F932A3583107")
    sig = sign2(l, oid, H, d, Hs[192:192 + 23])
    assert (o2i(sig[16:]) + (o2i(sig[:16]) + 2 ** 128) * d + o2i(H)) % q == k
    assert verify(l, oid, H, sig, Qo)
    # G.9 (identity-based signature)
    H = belt.hash(Hs[32:48])
    id_sig, used = id_sign_from_tape(l, oid, id_hash, H, e, rng.step(32))
    assert id_sig == hx("1697FE6A073D3B28C9D0DD832A169D7B8D342FDC47BC8AAEB6226448956E22D6CC73B62CB21B66E5C8DE0A3E234FB0C6")
    assert id_verify(l, oid, id_hash, H, id_sig, Ro, Qo)
    assert not id_verify(l, oid, id_hash, H, bytes([id_sig[0] ^ 1]) + id_sig[1:], Ro, Qo)
    assert not id_verify(l, oid, id_hash, H, id_sig, bytes([Ro[0] ^ 1]) + Ro[1:], Qo)
    # G.10
    H = belt.hash(Hs[32:32 + 23])
    id_sig, used = id_sign_from_tape(l, oid, id_hash, H, e, rng.step(32))
    assert id_sig == hx("31CBA14FC2D79AFCD8F50E29F993FC2CB270BD0A79D534B3B120791400C8BB1850AD6D3C78047FCB46F18608AC7006AA")
    assert id_verify(l, oid, id_hash, H, id_sig, Ro, Qo)
    assert not id_verify(l, oid, id_hash, H, bytes([id_sig[0] ^ 1]) + id_sig[1:], Ro, Qo)
    assert not id_verify(l, oid, id_hash, H, id_sig, bytes([Ro[0] ^ 1]) + Ro[1:], Qo)
    # bignIdSign2
    id_sig = id_sign2(l, oid, id_hash, H, e)
    assert id_verify(l, oid, id_hash, H, id_sig, Ro, Qo)
    assert not id_verify(l, oid, id_hash, H, bytes([id_sig[0] ^ 1]) + id_sig[1:], Ro, Qo)
    # E.5 (belt-pbkdf2 / belt-kwp on the private key; belongs to belt but is in bign_test.c)
    key = hx("3D331BBBB1FBBB40E4BF22F6CB9A689EF13A77DC09ECF93291BFE42439A72E7D")
    if slow:                            # ~40 s in pure Python
        assert belt.pbkdf2(b"B194BAC80A08F53B", 10000, Hs[192:200]) == key
    assert belt.kwp_wrap(key, None, i2o(d, 32)) == hx(
        "4EA289D5F718087DD8EDB305BA1CE8980E5EC3E0B56C8BF9D5C3E909CF4C14F07B8204E67841A165E924945CD07F37E7")
    # additional: transport of a 16-octet key
    tok, used = key_wrap_from_tape(l, Hs[:16], Hs[64:80], Qo, rng.step(32))
    assert len(tok) == 64 and key_unwrap(l, tok, Hs[64:80], d) == Hs[:16]
    # additional (vs OpenSSL)
    if slow:
        assert belt.pbkdf2(b"zed", 2048, hx("49FEFF8076CD9480")) == hx(
            "7249B4785FE68B1586D189A23E3842E48705C080A3248D8F0E8C3D63A93B2670")
        assert belt.pbkdf2(b"zed", 10000, hx("C65017E4F108BCF0")) == hx(
            "E48329259BC1211DDAC2EF1DADFFC9932702A92F1DD66C14A9BA1D7300C8713C")

    # ---- bign96_test.c
    rng = _CtrX(Hs[128:160], Hs[192:224], Hs)
    d, Q, used = keypair96_from_tape(rng.step(24))
    assert used == 24
    assert i2o(d, 24) == hx("B1E1CDDFCF5DD7BA278390F292EEB72B661B79922933BFB9")
    Qo = point_to_octets(96, Q)
    assert Qo == hx("4CED8FBBA1842BE58B4C0444F359CB14C6F2CE13B710F1172D2C962F53D13115DE14E56D9EB2628C9A884F668059EEA5")
    assert keypair_val(96, d, Qo) and pubkey_val(96, Qo) and pubkey_calc(96, d) == Q
    H = belt.hash(Hs[:13])[:24]
    tape = rng.step(24)
    LIB, DOC = BIGN96_TOP_BIT_LIB, BIGN96_TOP_BIT_DOC
    v1 = hx("4981BBDD8721C08FA347B89BD16FDDE647D310F55474C4182C1CC5BBD5642CC7E1B2")
    sig, used = sign96_from_tape(oid, H, d, tape, LIB)
    assert used == 24 and sig == v1
    assert verify96(oid, H, sig, Qo, LIB)
    assert not verify96(oid, H, bytes([sig[0] ^ 1]) + sig[1:], Qo, LIB)
    assert not verify96(oid, H, sig, bytes([Qo[0] ^ 1]) + Qo[1:], LIB)
    # DISAGREEMENT (reported): with the multiplier S0 + 2^l = S0 + 2^96 of the description the
    # vector is NOT reproduced (S0 is, S1 is not) and the library's signature does not verify
    sig_doc = sign96_from_tape(oid, H, d, tape, DOC)[0]
    assert sig_doc[:10] == v1[:10] and sig_doc != v1 and not verify96(oid, H, v1, Qo, DOC)
    assert verify96(oid, H, sig_doc, Qo, DOC)
    v2 = hx("D95DEF43F36A4C73D19399B79FB0C692CF44D615CCE5F45D474E7593D30E70B9B0C3")
    sig = sign96_2(oid, H, d, None, LIB)
    assert sig == v2 and verify96(oid, H, sig, Qo, LIB)
    assert genk96(oid, d, H)[1] == 1
    assert _block32_round3(theta, Hs[:24], 1) == belt.block32_encr(theta, Hs[:24])
    assert not verify96(oid, H, bytes([sig[0] ^ 1]) + sig[1:], Qo, LIB)
    assert not verify96(oid, H, sig, bytes([Qo[0] ^ 1]) + Qo[1:], LIB)
    assert not verify96(oid, H, v2, Qo, DOC)

    # ---- a few algebraic self-checks on all levels
    import random
    rnd = random.Random(45)
    for l in (128, 192, 256):
        P = PARAMS[l]
        n = no_of(l)
        for d in (1, P["q"] - 1, rnd.randrange(1, P["q"])):
            Qo = point_to_octets(l, pubkey_calc(l, d))
            for H in (bytes(n), i2o(P["q"], n), b"\xFF" * n, rnd.randbytes(n)):
                k = rnd.randrange(1, P["q"])
                sig = sign(l, oid, H, d, k)
                assert len(sig) == 3 * l // 8 and verify(l, oid, H, sig, Qo)
                s1 = o2i(sig[l // 8:])
                if s1 + P["q"] < 2 ** (2 * l):
                    assert not verify(l, oid, H, sig[:l // 8] + i2o(s1 + P["q"], n), Qo)
            tok = key_wrap(l, b"0123456789abcdefXYZ", None, Qo, rnd.randrange(1, P["q"]))
            assert key_unwrap(l, tok, None, d) == b"0123456789abcdefXYZ"
            assert key_unwrap(l, tok, bytes(15) + b"\x01", d) is None
    return True


if __name__ == "__main__":
    print(selftest(slow="--slow" in sys.argv, verbose=True))
