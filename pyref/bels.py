"""STB 34.101.60 (bels) secret sharing -- reference model (bee2: bels.h).

Conventions (STB 34.101.60 / bels.h): an octet string of len octets is the little-endian code
of a number u; bit i of u is the coefficient of x^i.  A public key m of len = l/8 octets stands
for the polynomial f(x) = x^l + m(x) of degree l, which must be irreducible over GF(2).

Polynomials are Python ints (see gf2x.py)."""
import os, sys

sys.path.insert(0, os.path.dirname(os.path.abspath(__file__)))
import gf2x  # noqa

LENS = (16, 24, 32)

# tables A.1 (num = 0) and A.2 - A.4 (num = 1..16): standard public keys, as numbers
_STD = {
    16: (0x00000087,
         0x00000285, 0x00000C41, 0x00001821, 0x00008015,
         0x00008301, 0x00020281, 0x00022081, 0x0002A001,
         0x00080141, 0x00080205, 0x00082801, 0x0008A001,
         0x00108041, 0x00200025, 0x00200405, 0x00200C01),
    24: (0x00000087,
         0x00001209, 0x00001241, 0x00008601, 0x00008821,
         0x0000C005, 0x00020049, 0x00020085, 0x00021009,
         0x00060801, 0x00090201, 0x000A0081, 0x00200411,
         0x00228001, 0x00400209, 0x00420801, 0x00810401),
    32: (0x00000425,
         0x0001000B, 0x0001000D, 0x0001A001, 0x00020061,
         0x00040085, 0x00200181, 0x00204005, 0x00280011,
         0x00810201, 0x00820401, 0x0100000B, 0x01002801,
         0x01200009, 0x02000029, 0x02002009, 0x0800000B),
}


def _poly(m):
    """public key octets -> f(x) = x^l + m(x)"""
    return (1 << (8 * len(m))) | int.from_bytes(m, "little")


def _chk_len(ln):
    if ln not in LENS:
        raise ValueError("len must be 16, 24 or 32")


class Tape:
    def __init__(self, data):
        self.data, self.pos = bytes(data), 0

    def take(self, n):
        if self.pos + n > len(self.data):
            raise EOFError("tape exhausted")
        r = self.data[self.pos:self.pos + n]
        self.pos += n
        return r


def _tape(t):
    return t if isinstance(t, Tape) else Tape(t)


# ----------------------------------------------------------------------------
# public keys
# ----------------------------------------------------------------------------

def std_m(ln, num):
    _chk_len(ln)
    if not 0 <= num <= 16:
        raise ValueError("num must be in 0..16")
    return _STD[ln][num].to_bytes(ln, "little")


def val_m(m):
    """x^l + m(x) irreducible?"""
    _chk_len(len(m))
    return gf2x.is_irred(_poly(m))


GENM0_TRIES = lambda ln: ln * 8 * 64 * 3 // 4      # k * l with k = B_PER_IMPOSSIBLE * 3 / 4 (bels.h)


def gen_m0(ln, tape):
    """bels-genm0: candidates of len octets are drawn until x^l + m0(x) is irreducible.
    -> m0, or None when k*l candidates have been rejected (ERR_BAD_ANG)."""
    _chk_len(ln)
    tape = _tape(tape)
    for _ in range(GENM0_TRIES(ln)):
        m0 = tape.take(ln)
        if val_m(m0):
            return m0
    return None


def min_poly(u, f0):
    """minimal polynomial over GF(2) of the element u of F_2[x]/(f0): the monic polynomial f of
    least degree with f(u) = 0 mod f0.  Found by plain linear algebra: the first power u^d that
    is a GF(2)-combination of 1, u, ..., u^(d-1)."""
    basis = []          # list of (reduced vector, combination mask over powers of u)
    pw = gf2x.mod(1, f0)
    d = 0
    while True:
        vec, comb = pw, 1 << d
        for (bv, bc) in basis:
            if vec ^ bv < vec:          # cancel the leading bit of bv when present in vec
                vec ^= bv
                comb ^= bc
        if vec == 0:
            return comb                 # sum_{i in comb} u^i = 0, top index d: monic of degree d
        basis.append((vec, comb))
        basis.sort(reverse=True)
        pw = gf2x.mulmod(pw, u, f0)
        d += 1


GENMI_TRIES = lambda ln: max(3, 64 * 2 // (ln * 8))


def gen_mi(ln, m0, tape):
    """one user key (the part of bels-genmi implemented by belsGenMi): u is drawn (len octets),
    f = BuildIrred(u) = minimal polynomial of u in F_2[x]/(x^l + m0(x)); accepted when deg f = l
    and f differs from x^l + m0(x) (keys must differ from m0).  max(3, 128/l) attempts.
    -> mi or None."""
    _chk_len(ln)
    assert len(m0) == ln
    tape = _tape(tape)
    f0 = _poly(m0)
    for _ in range(GENMI_TRIES(ln)):
        u = int.from_bytes(tape.take(ln), "little")
        f = min_poly(u, f0)
        if gf2x.deg(f) == 8 * ln and f != f0:
            return (f ^ (1 << (8 * ln))).to_bytes(ln, "little")
    return None


def gen_mid(ln, m0, id):
    """bels-genmid: u <- first l bits of belt-hash(id); f = BuildIrred(u); while f is not
    suitable u <- u + 1 (mod 2^l)."""
    _chk_len(ln)
    assert len(m0) == ln
    import belt
    l = 8 * ln
    f0 = _poly(m0)
    u = int.from_bytes(belt.hash(bytes(id))[:ln], "little")
    for _ in range(GENMI_TRIES(ln)):
        f = min_poly(u, f0)
        if gf2x.deg(f) == l and f != f0:
            return (f ^ (1 << l)).to_bytes(ln, "little")
        u = (u + 1) % (1 << l)
    return None


# ----------------------------------------------------------------------------
# share / recover
# ----------------------------------------------------------------------------

def share(secret, count, threshold, m0, mi_list, k):
    """bels-share.  k: (threshold - 1) * len octets from the generator.
    c(x) = (x^l + m0(x)) k(x) + s(x);  s_i(x) = c(x) mod (x^l + m_i(x)).  -> list of count shares"""
    ln = len(secret)
    _chk_len(ln)
    if not 0 < threshold <= count:
        raise ValueError("0 < threshold <= count required")
    assert len(m0) == ln and len(mi_list) == count and all(len(m) == ln for m in mi_list)
    assert len(k) == (threshold - 1) * ln
    kx = int.from_bytes(k, "little")
    s = int.from_bytes(secret, "little")
    c = gf2x.mul(_poly(m0), kx) ^ s
    return [gf2x.mod(c, _poly(m)).to_bytes(ln, "little") for m in mi_list]


def share_from_tape(secret, count, threshold, m0, mi_list, tape):
    tape = _tape(tape)
    return share(secret, count, threshold, m0, mi_list, tape.take((threshold - 1) * len(secret)))


def recover(shares, ln, m0, mi_list):
    """bels-recover: the unique c(x) of degree < t*l with c = s_i mod (x^l + m_i(x)) for the t given
    shares (Chinese remainders), then s(x) = c(x) mod (x^l + m0(x)).
    -> secret, or None when the moduli are not pairwise coprime (bad / repeated public keys)."""
    _chk_len(ln)
    if len(shares) == 0 or len(shares) != len(mi_list):
        raise ValueError("count")
    fs = [_poly(m) for m in mi_list]
    rs = [int.from_bytes(s, "little") for s in shares]
    F = 1
    for f in fs:
        if gf2x.gcd(f, F) != 1:
            return None
        F = gf2x.mul(F, f)
    c = 0
    for f, r in zip(fs, rs):
        G = gf2x.divmod_(F, f)[0]                 # product of the other moduli
        inv = gf2x.invmod(G, f)                   # G * inv = 1 mod f
        c ^= gf2x.mul(G, gf2x.mulmod(r, inv, f))
    c = gf2x.mod(c, F)
    return gf2x.mod(c, _poly(m0)).to_bytes(ln, "little")


def share2(secret, count, threshold, k):
    """belsShare2: standard keys, each share prefixed with its number 1..count"""
    ln = len(secret)
    if count > 16:
        raise ValueError("count <= 16")
    sh = share(secret, count, threshold, std_m(ln, 0), [std_m(ln, i + 1) for i in range(count)], k)
    return [bytes([i + 1]) + s for i, s in enumerate(sh)]


def recover2(shares, ln):
    """belsRecover2 -> secret or None (bad / repeated numbers)"""
    nums = [s[0] for s in shares]
    if any(not 1 <= n <= 16 for n in nums) or len(set(nums)) != len(nums):
        return None
    return recover([s[1:] for s in shares], ln, std_m(ln, 0), [std_m(ln, n) for n in nums])


# ----------------------------------------------------------------------------
# vectors: STB 34.101.60 appendix as quoted in /repo/test/crypto/bels_test.c
# ----------------------------------------------------------------------------

BELT_H = bytes.fromhex(
    "B194BAC80A08F53B366D008E584A5DE48504FA9D1BB6C7AC252E72C202FDCE0D"
    "5BE3D61217B96181FE6786AD716B890B5CB0C0FF33C356B835C405AED8E07F99"
    "E12BDC1AE28257EC703FCCF095EE8DF1C1AB76389FE678CAF7C6F860D5BB9C4F"
    "F33C657B637C306ADD4EA7799EB23D313E98B56E27D3BCCF591E181F4C5AB793"
    "E9DEE72C8F0C0FA62DDB49F46F73964706075316ED247A3739CBA38303A98BF6"
    "92BD9B1CE5D141015445FBC95E4D0EF2682080AA227D642F2687F93490405511"
    "BE32971343FC9A48A02A885F194B09A17ECDA4D01544AF8CA58450BF66D2E88A"
    "A2D7465242A8DFB36974C551EB232921D4EFD9B43A622875911410EA776CDA1D")

_B2_4 = {
    16: "E27D0CFD31C557BC37C3897DCFF2C7FC"
        "50BB9EECBAEF52DDB811BCDE1495441D"
        "A92473F6796683534AD115812A3F9950"
        "9A8331FD945D58E6D8723E4744FB1DA9"
        "51913D18C8625C5AB0812133FB643D66",
    24: "8D0EBB0C67A315C214B34A5D68E9712A12F7B43287E3138A"
        "2506EB8283D8555318479D278A752B04E9B5E6CC43543403"
        "E5B885E65E69ADD330D08268EC3D0A44B04B8E142CDDDD5C"
        "E85B368A66489AFE0E73D3D0EEB6A210CF0629C275AB1E94"
        "ED6CD8B56C37C03EE4FF04AE2A975AAA748AA0E97AA0DE20",
    32: "27EC2268C7A06E7CC54F66FC3D3572984D4D4EF69916EB8D1EAFDFA420217ADC"
        "20E06235E355CC433E2AF2F4100C636F3BFAB861A4390614E42BC17577BCBE42"
        "1E14B1E795CED216AAC5BB526EFC786C5BCE1F1865D3886ED4DD7D9EFEF77F39"
        "62EFAD2544718293262E2CB74A396B50B6D8843DF5E2F0EEFFFE6CD18722765E"
        "71ADE959FC88CCBB1C521FA9A1168C184619832AB66265E08A65DD48EE406418",
}

# tables B.5 - B.7: recovery from two users (i, j) (1-based), in that order
_B5_7 = {
    (1, 2): ("6380669CA508058FA9AADF986C77C175",
             "1E9811BD520C56E12B5B0E517756FA1AEE3CACC13B6313E9",
             "C39C8FA8590A7855914AED9B05940D9E8A119B130D939B8799889C938D1E078D"),
    (2, 3): ("E8BA837676967C5C939DBF5172C9AB4F",
             "AF8AB8304FEBD5CF89D643A850C771657310CA0E8EDF9C60",
             "31C06C2BF7AF38C2A6870A7F1B7BA9CC1A741DD96374A4D17A1F701666C9A777"),
    (3, 4): ("81C498D55DC506E858DE632A079C2C31",
             "21B6A467511CD2CE6AE671E1D0992538BFB4EAE927F70991",
             "3ACC00A6DF80BC314A708A19D467F95440B214356D4666B4075E384B87BEB86C"),
    (4, 5): ("40F629F9A4487DBCBF53192EA4A49EAA",
             "1C0E2B99D81134E0EB9AD40279D09786CA3CDA79B2E5D385",
             "3F5F33C778D77A4FADC0BB51BE9F01532627D1E83D023DA72255CC826B05213B"),
    (1, 3): ("ABD72A835739A358DD954BEF7A923AEC",
             "A2E3B51AFBD7AFD552048DD6444416E07F2D9FA92D726920",
             "70EDE256F46BDC35EEE39361921EE8A394E8E67F3F56ABFBA65329D146DA185B"),
    (2, 4): ("6CB93B8CF600A746F8520860901E36FA",
             "6D542544073C04C1C417ABDC292755A2861B4EB590B65841",
             "44FC1DE684980BE2660BB7BCE50728A125A81D3B71B8D4ACD74E03190ADA473B"),
    (5, 3): ("E685CC725DDE29E60927563912CBBEA4",
             "F2E193958DB1D3391D54C410244C151DBC267D6F5182DEC4",
             "B3C2EDAD484A5A864575721D10B9D0C09AE32C972C74857BA423D04502EE0066"),
    (4, 1): ("225E2DF0E4AE6532D5A741981410A83C",
             "2B65B8D1BEF2EA079F6C45DF5877EAA18F1188539B0AEF32",
             "7C2D5033F0F10CC69065B13BB53BE7D19D61CF864CF1578E8325F10564F995A3"),
    (2, 5): ("E4FCC7E24E448324367F400326954776",
             "EF5CE43C8AE6F4E441CE1C2D16ACC662D6CC1D8BAF937320",
             "264FD3BE9298495758B2446363616A3875D15EB96F95A122332597A87B2CCCBC"),
    (5, 1): ("E0C4268AC9C5FE35C15334E4D01417BE",
             "7E880E3E89CE5FD4E8452256BD66E42D18D88C0CF85FDC26",
             "00DD41CD32684FE7564F67FC51B0AD87003EEBDF90E803BA37CBA4FF8D9A724F"),
}

_B1 = {
    16: "F9D6F31B5DB0BB61F00E17EEF2E6007F",
    24: "09EA79297F94A3E43A3885FC0D1BB8FDD0DF86FD313CEF46",
    32: "D53CC51BE1F976F1032A00D9CD0E190E62C37FFD233E8A9DF14C85F85C51A045",
}


def selftest(with_mid=True):
    assert len(BELT_H) == 256
    done = []
    # tables A.1 - A.4
    for ln in LENS:
        for num in range(17):
            assert val_m(std_m(ln, num)), (ln, num)
        assert len(set(std_m(ln, n) for n in range(17))) == 17
    done.append("A.1-A.4 (51 keys irreducible)")
    # B.2 - B.4: share(5, 3), generator = echo of H[128:]
    for i, ln in enumerate(LENS):
        m0 = std_m(ln, 0)
        mi = [std_m(ln, n) for n in range(1, 6)]
        sec = BELT_H[:ln]
        sh = share_from_tape(sec, 5, 3, m0, mi, BELT_H[128:])
        assert b"".join(sh) == bytes.fromhex(_B2_4[ln]), ln
        for cnt in (1, 2):
            assert recover(sh[:cnt], ln, m0, mi[:cnt]) != sec
        for cnt in (3, 4, 5):
            assert recover(sh[:cnt], ln, m0, mi[:cnt]) == sec
        # B.5 - B.7 (under-threshold recoveries give these definite wrong values)
        for (a, b), exp in _B5_7.items():
            got = recover([sh[a - 1], sh[b - 1]], ln, m0, [mi[a - 1], mi[b - 1]])
            assert got == bytes.fromhex(exp[i]), (ln, a, b)
    done.append("B.2-B.4 share, B.5-B.7 ten rows x 3 lengths")
    # gen_m0 / gen_mi sanity (no appendix vector with explicit randomness exists for them)
    for ln in LENS:
        m0 = std_m(ln, 0)
        assert gen_m0(ln, bytes(ln) + m0) == m0            # x^l is reducible, second candidate accepted
        # u = x has minimal polynomial f0 itself -> rejected; then a generic u
        t = (2).to_bytes(ln, "little") + BELT_H[:ln]
        m = gen_mi(ln, m0, t)
        assert m is not None and m != m0 and val_m(m)
    # belsShare3 / brng-free but belt-ctr based: not covered here (needs belt keyexpand/compress/ctr)
    if with_mid:
        try:
            import belt
            _ = belt.hash
        except (ImportError, AttributeError):
            done.append("B.1 SKIPPED (belt.hash unavailable)")
        else:
            for ln in LENS:
                m = gen_mid(ln, std_m(ln, 0), b"Alice")
                assert m == bytes.fromhex(_B1[ln]), (ln, m.hex())
                assert val_m(m)
            done.append("B.1 genmid x 3")
    return done


if __name__ == "__main__":
    print("bels selftest:", selftest())
