"""STB 34.101.47 (brng): pseudorandom number generation, reference model.

Written from the algorithm definitions (6.2.4 CTR, 6.3.4 HMAC) as documented in
/repo/include/bee2/crypto/brng.h; h = belt-hash, hmac = HMAC[belt-hash].

CTR (6.2.4), key K (32 octets), iv S (32 octets), additional words X_1..X_n (32 octets each):
    s <- S,  r <- ~S (bitwise complement)
    for t = 1..n:   Y_t <- h(K || s || X_t || r),   s <- s [+] <1>_256,   r <- r ^ Y_t
  where [+] is the addition of 256-bit numbers modulo 2^256, the octet string being the
  little-endian representation of the number.

HMAC (6.3.4), key K, iv S of any length:
    r <- hmac(K, S)
    for t = 1..n:   Y_t <- hmac(K, r || S),   r <- hmac(K, r)

The bee2 API adds buffering on top (brng.h): data are produced in 32-octet blocks, unused octets
of the last block are kept and returned first by the next call.  In CTR the prior content of the
output buffer is the additional word X: the octets of the buffer that receive kept octets are
skipped; the rest is cut into 32-octet blocks X_t, the last one padded with zero octets.
"""

try:
    from . import belt as _belt
except ImportError:  # run as a script / plain module
    import belt as _belt

_h = _belt.hash
_hmac = _belt.hmac


def _inc256(s):
    """s [+] <1>_256 on the little-endian number, modulo 2^256"""
    return ((int.from_bytes(s, "little") + 1) % (1 << 256)).to_bytes(32, "little")


def _xor(a, b):
    assert len(a) == len(b)
    return bytes(u ^ v for u, v in zip(a, b))


class CTR:
    def __init__(self, key, iv=None):
        key = bytes(key)
        assert len(key) == 32
        iv = bytes(32) if iv is None else bytes(iv)
        assert len(iv) == 32
        self.key = key
        self.s = iv
        self.r = bytes(b ^ 0xFF for b in iv)
        self.kept = b""                 # octets of the last block not yet returned

    def _block(self, x):
        """one iteration of 6.2.4 on the additional word x (<= 32 octets, zero padded)"""
        x = x + bytes(32 - len(x))
        y = _h(self.key + self.s + x + self.r)
        self.s = _inc256(self.s)
        self.r = _xor(self.r, y)
        return y

    def step(self, buf):
        """brngCTRStepR: buf is the prior content of the output buffer; returns its new content"""
        buf = bytes(buf)
        out = self.kept[:len(buf)]
        self.kept = self.kept[len(out):]
        pos = len(out)                  # these octets of buf are skipped
        while pos < len(buf):
            x = buf[pos:pos + 32]
            y = self._block(x)
            out += y[:len(x)]
            self.kept = y[len(x):]
            pos += len(x)
        return out

    def get_iv(self):
        """brngCTRStepG"""
        return self.s


def ctr_rand(key, iv, buf):
    """brngCTRRand: returns (generated octets, updated iv)"""
    c = CTR(key, iv)
    out = c.step(buf)
    return out, c.get_iv()


class HMAC:
    def __init__(self, key, iv):
        self.key, self.iv = bytes(key), bytes(iv)
        self.r = _hmac(self.key, self.iv)
        self.kept = b""

    def _block(self):
        y = _hmac(self.key, self.r + self.iv)
        self.r = _hmac(self.key, self.r)
        return y

    def step(self, n):
        """brngHMACStepR"""
        out = self.kept[:n]
        self.kept = self.kept[len(out):]
        while len(out) < n:
            y = self._block()
            take = min(32, n - len(out))
            out += y[:take]
            self.kept = y[take:]
        return out


def hmac_rand(key, iv, n):
    """brngHMACRand"""
    return HMAC(key, iv).step(n)


# --------------------------------------------------------------------------- vectors

def selftest():
    try:
        from .bash import BELT_H as H
    except ImportError:
        from bash import BELT_H as H
    hx = bytes.fromhex
    # B.2 (with the extra data of brng_test.c)
    want = hx(
        "1F66B5B84B7339674533F0329C74F21834281FED0732429E0C79235FC273E269"
        "4C0E74B2CD5811AD21F23DE7E0FA742C3ED6EC483C461CE15C33A77AA308B7D2"
        "0F51D91347617C20BD4AB07AEF4F26A1AD1362A8F9A3D42FBE1B8E6F1C88AAD5"
        "0A4E8298BE0839E46F19409F637F4415572251DD0D39284F0F0390D93BBCE9EC"
        "F81B29D571F6452FF8B2B97F57E18A58BC946FEE45EAB32B06FCAC23A33F422B"
        "C431B41BBE8E802288737ACF45A29251FC736A3C6F478F77A7ED271D5EEDAA58"
        "E98309303623AFD33017C42BC6D43C15438446EE57D46E412EFC0B61B5FBA39E"
        "D37BABE50BFEEB8ED162BB1393D46FB43534A201EB3B1A5C085DC5068ED6F89A")
    c = CTR(H[128:160], H[192:224])
    out = c.step(H[0:32]) + c.step(H[32:64]) + c.step(H[64:96])
    iv = c.get_iv()
    out += c.step(H[96:256])
    assert out == want
    assert iv == hx("C132971343FC9A48A02A885F194B09A17ECDA4D01544AF8CA58450BF66D2E88A")
    o, iv1 = ctr_rand(H[128:160], H[192:224], H[:96])
    assert o == want[:96] and iv1 == iv
    # B.4
    want = hx(
        "AF907A0E470A3A1B268ECCCCC0B90F239FE94A2DC6E014179FC789CB3C3887E4"
        "695C6B96B84948F8D76924E22260859DB9B5FE757BEDA2E17103EE44655A9FEF"
        "648077CCC5002E0561C6EF512C513B8C24B4F3A157221CFBC1597E969778C1E4")
    g = HMAC(H[128:160], H[192:224])
    assert g.step(32) + g.step(11) + g.step(19) + g.step(2) + g.step(32) == want
    assert hmac_rand(H[128:160], H[192:224], 96) == want
    # extra: short key, iv and output
    assert HMAC(H[128:129], H[192:193]).step(2) == hx("42B1") == hmac_rand(H[128:129], H[192:193], 2)
    # extra: long key, long iv; one-shot equals stepwise; a different iv gives different data
    a = HMAC(H[128:255], H[:127]).step(256)
    assert a == hmac_rand(H[128:255], H[:127], 256)
    # ("volatile iv" test: an iv longer than 64 octets is referenced, not copied, by the library;
    #  changing it after Start changes the Y_t but not the initial r)
    g = HMAC(H[128:255], H[:127])
    g.iv = bytes([(H[0] + 1) & 0xFF]) + H[1:127]
    assert g.step(256) != a
    return True


if __name__ == "__main__":
    print("OK" if selftest() else "FAIL")
