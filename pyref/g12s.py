"""GOST R 34.10-2012 signature (bee2: g12s.h) -- reference model.

Written from GOST R 34.10-2012 (sections 5.2, 6.1, 6.2) and the doc comments of
/repo/include/bee2/crypto/g12s.h.  Plain affine curve arithmetic over Python ints.

Encodings used by the library interface (g12s.h):
  * privkey: l/8 octets, little-endian number d   (the header text says "l / 4 octets";
    the appendix vectors and d < q < 2^l show that l/8 is meant -- see NOTES below);
  * pubkey:  2*no octets, little-endian x || little-endian y, no = octet length of p;
  * hash:    l/8 octets, BIG-endian number alpha (formula (14) of the standard);
  * sig:     l/4 octets, BIG-endian r || BIG-endian s (formula (19), step 6).

NOTES (points where header text / standard / code are not literally the same):
  * header: "privkey consists of l / 4 octets" -- taken as a typo for l / 8;
  * standard, signing step 5: "if s = 0 return to step 3".  The model follows the standard.
"""

# ----------------------------------------------------------------------------
# long-term parameters (numbers taken from the tables of g12s.c, read little-endian)
# ----------------------------------------------------------------------------


class Params:
    def __init__(self, name, l, p, a, b, q, n, xP, yP):
        self.name, self.l, self.p, self.a, self.b, self.q, self.n = name, l, p, a, b, q, n
        self.P = (xP, yP)
        self.no = (p.bit_length() + 7) // 8      # octet length of p
        self.mo = l // 8                         # octet length of q, d, hash, r, s

    def __repr__(self):
        return "g12s.Params(%s)" % self.name


PARAMS = {}


def _add(name, l, p, a, b, q, n, xP, yP):
    PARAMS[name] = Params(name, l, p, a, b, q, n, xP, yP)


# test example A.1 of GOST R 34.10-2012
_add("1.2.643.2.2.35.0", 256,
     0x8000000000000000000000000000000000000000000000000000000000000431,
     0x7,
     0x5FBFF498AA938CE739B8E022FBAFEF40563F6E6A3472FC2A514C0CE9DAE23B7E,
     0x8000000000000000000000000000000150FE8A1892976154C59CFC193ACCF5B3,
     1,
     0x2,
     0x8E2A8A0E65147D4BD6316030E16D19C85C97F0A9CA267122B96ABBCEA7E8FC8)
# CryptoPro A
_add("1.2.643.2.2.35.1", 256,
     0xFFFFFFFFFFFFFFFFFFFFFFFFFFFFFFFFFFFFFFFFFFFFFFFFFFFFFFFFFFFFFD97,
     0xFFFFFFFFFFFFFFFFFFFFFFFFFFFFFFFFFFFFFFFFFFFFFFFFFFFFFFFFFFFFFD94,
     0xA6,
     0xFFFFFFFFFFFFFFFFFFFFFFFFFFFFFFFF6C611070995AD10045841B09B761B893,
     1,
     0x1,
     0x8D91E471E0989CDA27DF505A453F2B7635294F2DDF23E3B122ACC99C9E9F1E14)
# CryptoPro B
_add("1.2.643.2.2.35.2", 256,
     0x8000000000000000000000000000000000000000000000000000000000000C99,
     0x8000000000000000000000000000000000000000000000000000000000000C96,
     0x3E1AF419A269A5F866A7D3C25C3DF80AE979259373FF2B182F49D4CE7E1BBC8B,
     0x800000000000000000000000000000015F700CFFF1A624E5E497161BCC8A198F,
     1,
     0x1,
     0x3FA8124359F96680B83D1C3EB2C070E5C545C9858D03ECFB744BF8D717717EFC)
# CryptoPro C
_add("1.2.643.2.2.35.3", 256,
     0x9B9F605F5A858107AB1EC85E6B41C8AACF846E86789051D37998F7B9022D759B,
     0x9B9F605F5A858107AB1EC85E6B41C8AACF846E86789051D37998F7B9022D7598,
     0x805A,
     0x9B9F605F5A858107AB1EC85E6B41C8AA582CA3511EDDFB74F02F3A6598980BB9,
     1,
     0x0,
     0x41ECE55743711A8C3CBF3783CD08C0EE4D4DC440D4641A8F366E550DFDB3BB67)
# CryptoCom
_add("1.2.643.2.9.1.8.1", 256,
     0xC0000000000000000000000000000000000000000000000000000000000003C7,
     0xC0000000000000000000000000000000000000000000000000000000000003C4,
     0x2D06B4265EBC749FF7D0F1F1F88232E81632E9088FD44B7787D5E407E955080C,
     0x5FFFFFFFFFFFFFFFFFFFFFFFFFFFFFFF606117A2F4BDE428B7458A54B6E87B85,
     2,
     0x2,
     0xA20E034BF8813EF5C18D01105E726A17EB248B264AE9706F440BEDC8CCB6B22C)
# test example A.2 of GOST R 34.10-2012
_add("1.2.643.7.1.2.1.2.0", 512,
     0x4531ACD1FE0023C7550D267B6B2FEE80922B14B2FFB90F04D4EB7C09B5D2D15DF1D852741AF4704A0458047E80E4546D35B8336FAC224DD81664BBF528BE6373,
     0x7,
     0x1CFF0806A31116DA29D8CFA54E57EB748BC5F377E49400FDD788B649ECA1AC4361834013B2AD7322480A89CA58E0CF74BC9E540C2ADD6897FAD0A3084F302ADC,
     0x4531ACD1FE0023C7550D267B6B2FEE80922B14B2FFB90F04D4EB7C09B5D2D15DA82F2D7ECB1DBAC719905C5EECC423F1D86E25EDBE23C595D644AAF187E6E6DF,
     1,
     0x24D19CC64572EE30F396BF6EBBFD7A6C5213B3B3D7057CC825F91093A68CD762FD60611262CD838DC6B60AA7EEE804E28BC849977FAC33B4B530F1B120248A9A,
     0x2BB312A43BD2CE6E0D020613C857ACDDCFBF061E91E5F2C3F32447C259F39B2C83AB156D77F1496BF7EB3351E1EE4E43DC1A18B91B24640B6DBB92CB1ADD371E)
# id-tc26-gost-3410-12-512-paramSetA
_add("1.2.643.7.1.2.1.2.1", 512,
     2 ** 512 - 0x239,
     2 ** 512 - 0x23C,
     0xE8C2505DEDFC86DDC1BD0B2B6667F1DA34B82574761CB0E879BD081CFD0B6265EE3CB090F30D27614CB4574010DA90DD862EF9D4EBEE4761503190785A71C760,
     0xFFFFFFFFFFFFFFFFFFFFFFFFFFFFFFFFFFFFFFFFFFFFFFFFFFFFFFFFFFFFFFFF27E69532F48D89116FF22B8D4E0560609B4B38ABFAD2B85DCACDB1411F10B275,
     1,
     0x3,
     0x7503CFE87A836AE3A61B8816E25450E6CE5E1C93ACF1ABC1778064FDCBEFA921DF1626BE4FD036E93D75E6A50E3A41E98028FE5FC235F5B889A589CB5215F2A4)
# id-tc26-gost-3410-12-512-paramSetB
_add("1.2.643.7.1.2.1.2.2", 512,
     0x8000000000000000000000000000000000000000000000000000000000000000000000000000000000000000000000000000000000000000000000000000006F,
     0x8000000000000000000000000000000000000000000000000000000000000000000000000000000000000000000000000000000000000000000000000000006C,
     0x687D1B459DC841457E3E06CF6F5E2517B97C7D614AF138BCBF85DC806C4B289F3E965D2DB1416D217F8B276FAD1AB69C50F78BEE1FA3106EFB8CCBC7C5140116,
     0x800000000000000000000000000000000000000000000000000000000000000149A1EC142565A545ACFDB77BD9D40CFA8B996712101BEA0EC6346C54374F25BD,
     1,
     0x2,
     0x1A8F7EDA389B094C2C071E3647A8940F3C123B697578C213BE6DD9E6C8EC7335DCB228FD1EDF4A39152CBCAAF8C0398828041055F94CEEEC7E21340780FE41BD)


# ----------------------------------------------------------------------------
# affine arithmetic on y^2 = x^3 + a x + b over GF(p); None is the point at infinity
# ----------------------------------------------------------------------------

def on_curve(params, pt):
    if pt is None:
        return True
    x, y = pt
    p = params.p
    return 0 <= x < p and 0 <= y < p and (y * y - (x * x * x + params.a * x + params.b)) % p == 0


def ec_add(params, A, B):
    p = params.p
    if A is None:
        return B
    if B is None:
        return A
    x1, y1 = A
    x2, y2 = B
    if x1 == x2:
        if (y1 + y2) % p == 0:
            return None
        lam = (3 * x1 * x1 + params.a) * pow(2 * y1, -1, p) % p
    else:
        lam = (y2 - y1) * pow(x2 - x1, -1, p) % p
    x3 = (lam * lam - x1 - x2) % p
    y3 = (lam * (x1 - x3) - y1) % p
    return (x3, y3)


def ec_mul(params, k, A):
    R = None
    for bit in bin(k)[2:] if k else "":
        R = ec_add(params, R, R)
        if bit == "1":
            R = ec_add(params, R, A)
    return R


def params_val(params):
    """the conditions of section 5.2 that can be checked cheaply (used by selftest)"""
    p, q = params.p, params.q
    ok = params.l in (256, 512)
    ok = ok and (2 ** 254 < q < 2 ** 256 if params.l == 256 else 2 ** 508 < q < 2 ** 512)
    ok = ok and _is_prime(p) and _is_prime(q) and p != q
    ok = ok and (4 * params.a ** 3 + 27 * params.b ** 2) % p != 0
    ok = ok and params.a % p != 0 and params.b % p != 0          # J(E) not in {0, 1728}
    ok = ok and on_curve(params, params.P) and ec_mul(params, q, params.P) is None
    B = 31 if params.l == 256 else 131
    ok = ok and all(pow(p, t, q) != 1 for t in range(1, B + 1))
    # Hasse: |n q - (p + 1)| <= 2 sqrt(p)
    ok = ok and (params.n * q - (p + 1)) ** 2 <= 4 * p
    return ok


def _is_prime(n):
    if n < 2:
        return False
    for sp in (2, 3, 5, 7, 11, 13, 17, 19, 23, 29, 31, 37):
        if n % sp == 0:
            return n == sp
    d, s = n - 1, 0
    while d % 2 == 0:
        d //= 2
        s += 1
    for a in (2, 3, 5, 7, 11, 13, 17, 19, 23, 29, 31, 37, 41, 43, 47, 53):
        x = pow(a, d, n)
        if x in (1, n - 1):
            continue
        for _ in range(s - 1):
            x = x * x % n
            if x == n - 1:
                break
        else:
            return False
    return True


# ----------------------------------------------------------------------------
# encodings
# ----------------------------------------------------------------------------

def _le(v):
    return int.from_bytes(v, "little") if isinstance(v, (bytes, bytearray)) else int(v)


def privkey_enc(params, d):
    return d.to_bytes(params.mo, "little")


def pubkey_enc(params, Q):
    return Q[0].to_bytes(params.no, "little") + Q[1].to_bytes(params.no, "little")


def pubkey_dec(params, pubkey):
    """-> point (x, y) or None when the octet string is not a point of the curve"""
    if isinstance(pubkey, tuple):
        Q = pubkey
    else:
        if len(pubkey) != 2 * params.no:
            return None
        Q = (int.from_bytes(pubkey[:params.no], "little"), int.from_bytes(pubkey[params.no:], "little"))
    if not (0 <= Q[0] < params.p and 0 <= Q[1] < params.p):
        return None
    if not on_curve(params, Q):
        return None
    return Q


def sig_enc(params, r, s):
    return r.to_bytes(params.mo, "big") + s.to_bytes(params.mo, "big")


def hash_to_e(params, hash):
    """steps 2 of 6.1 / 3 of 6.2: alpha = number with BIG-endian code hash, e = alpha mod q, e = 0 -> 1"""
    assert len(hash) == params.mo
    e = int.from_bytes(hash, "big") % params.q
    return e if e else 1


# ----------------------------------------------------------------------------
# random numbers: library rule zzRandNZMod (uniform in {1..q-1} by rejection)
# ----------------------------------------------------------------------------

class Tape:
    """explicit random octets; EOFError when exhausted"""

    def __init__(self, data):
        self.data, self.pos = bytes(data), 0

    def take(self, n):
        if self.pos + n > len(self.data):
            raise EOFError("tape exhausted")
        r = self.data[self.pos:self.pos + n]
        self.pos += n
        return r


MAX_TRIES = 64 + 1      # B_PER_IMPOSSIBLE = 64: first draw plus 64 retries, then failure


def rand_nz_mod(q, tape):
    """draw ceil(l/8) octets, l = bitlen(q); read little-endian; keep the low l bits;
    accept when 0 < a < q.  Returns None after MAX_TRIES rejected draws."""
    if not isinstance(tape, Tape):
        tape = Tape(tape)
    l = q.bit_length()
    for _ in range(MAX_TRIES if l > 16 else 2 * 64 + 1):
        a = int.from_bytes(tape.take((l + 7) // 8), "little") & ((1 << l) - 1)
        if 0 < a < q:
            return a
    return None


# ----------------------------------------------------------------------------
# keys
# ----------------------------------------------------------------------------

def pubkey_calc(params, d):
    """Q = d P, as the library's pubkey octets.  0 < d < q required."""
    d = _le(d)
    if not 0 < d < params.q:
        raise ValueError("bad privkey")
    return pubkey_enc(params, ec_mul(params, d, params.P))


def keypair_from_tape(params, tape):
    """-> (privkey, pubkey) or None (generator failure)"""
    d = rand_nz_mod(params.q, tape)
    if d is None:
        return None
    return privkey_enc(params, d), pubkey_calc(params, d)


# ----------------------------------------------------------------------------
# signature (6.1) and verification (6.2)
# ----------------------------------------------------------------------------

def sign(params, hash, d, k):
    """one pass of steps 2, 4-6 of 6.1 with the given k (0 < k < q).
    -> sig octets, or None when the standard says "return to step 3" (r = 0 or s = 0)."""
    q = params.q
    d, k = _le(d), _le(k)
    if not 0 < d < q:
        raise ValueError("bad privkey")
    if not 0 < k < q:
        raise ValueError("bad k")
    e = hash_to_e(params, hash)
    C = ec_mul(params, k, params.P)
    r = C[0] % q
    if r == 0:
        return None
    s = (r * d + k * e) % q
    if s == 0:
        return None
    return sig_enc(params, r, s)


def sign_from_tape(params, hash, d, tape):
    """-> sig, or None (generator failure).  k is drawn by rand_nz_mod until a signature comes out."""
    if not isinstance(tape, Tape):
        tape = Tape(tape)
    while True:
        k = rand_nz_mod(params.q, tape)
        if k is None:
            return None
        sig = sign(params, hash, d, k)
        if sig is not None:
            return sig


def verify(params, hash, sig, Q):
    """6.2.  Q: pubkey octets (or a point).  True iff the signature is accepted."""
    q = params.q
    mo = params.mo
    if len(hash) != mo or len(sig) != 2 * mo:
        return False
    Q = pubkey_dec(params, Q)
    if Q is None:
        return False                     # not a point of the curve: not a verification key
    r = int.from_bytes(sig[:mo], "big")
    s = int.from_bytes(sig[mo:], "big")
    if not (0 < r < q and 0 < s < q):     # step 1
        return False
    e = hash_to_e(params, hash)          # steps 2, 3
    v = pow(e, -1, q)                    # step 4
    z1 = s * v % q                       # step 5
    z2 = -r * v % q
    C = ec_add(params, ec_mul(params, z1, params.P), ec_mul(params, z2, Q))   # step 6
    if C is None:
        return False                     # O has no x-coordinate
    return C[0] % q == r                 # step 7


# ----------------------------------------------------------------------------
# appendix vectors (GOST R 34.10-2012 A.1, A.2 as quoted in /repo/test/crypto/g12s_test.c)
# ----------------------------------------------------------------------------

def _rev(h):
    return bytes.fromhex(h)[::-1]


def selftest():
    for prm in PARAMS.values():
        assert params_val(prm), prm
    # A.1
    prm = PARAMS["1.2.643.2.2.35.0"]
    tape = _rev("7A929ADE789BB9BE10ED359DD39A72C11B60961F49397EEE1D19CE9891EC3B28")
    priv, pub = keypair_from_tape(prm, tape)
    assert priv == _rev("7A929ADE789BB9BE10ED359DD39A72C11B60961F49397EEE1D19CE9891EC3B28")
    assert pub == _rev("26F1B489D6701DD185C8413A977B3CBBAF64D1C593D26627DFFB101A87FF77DA"
                       "7F2B49E270DB6D90D8595BEC458B50C58585BA1D4E9B788F6689DBD8E56FD80B")
    assert pub == pubkey_calc(prm, priv)
    h = bytes.fromhex("2DFBC1B372D89A1188C09C52E0EEC61FCE52032AB1022E8E67ECE6672B043EE5")
    ktape = _rev("77105C9B20BCD3122823C8CF6FCC7B956DE33814E95B7FE64FED924594DCEAB3")
    sig = sign_from_tape(prm, h, priv, ktape)
    assert sig == bytes.fromhex("41AA28D2F1AB148280CD9ED56FEDA41974053554A42767B83AD043FD39DC0493"
                                "01456C64BA4642A1653C235A98A60249BCD6D3F746B631DF928014F6C5BF9C40")
    assert sig == sign(prm, h, priv, ktape)
    assert verify(prm, h, sig, pub)
    bad = bytes([sig[0] ^ 1]) + sig[1:]
    assert not verify(prm, h, bad, pub)
    # A.2
    prm = PARAMS["1.2.643.7.1.2.1.2.0"]
    tape = _rev("0BA6048AADAE241BA40936D47756D7C93091A0E8514669700EE7508E508B1020"
                "72E8123B2200A0563322DAD2827E2714A2636B7BFD18AADFC62967821FA18DD4")
    priv, pub = keypair_from_tape(prm, tape)
    assert priv == tape
    assert pub == _rev("37C7C90CD40B0F5621DC3AC1B751CFA0E2634FA0503B3D52639F5D7FB72AFD61"
                       "EA199441D943FFE7F0C70A2759A3CDB84C114E1F9339FDF27F35ECA93677BEEC"
                       "115DC5BC96760C7B48598D8AB9E740D4C4A85A65BE33C1815B5C320C854621DD"
                       "5A515856D13314AF69BC5B924C8B4DDFF75C45415C1D9DD9DD33612CD530EFE1")
    h = bytes.fromhex("3754F3CFACC9E0615C4F4A7C4D8DAB531B09B6F9C170C533A71D147035B0C591"
                      "7184EE536593F4414339976C647C5D5A407ADEDB1D560C4FC6777D2972075B8C")
    ktape = _rev("0359E7F4B1410FEACC570456C6801496946312120B39D019D455986E364F3658"
                 "86748ED7A44B3E794434006011842286212273A6D14CF70EA3AF71BB1AE679F1")
    sig = sign_from_tape(prm, h, priv, ktape)
    assert sig == bytes.fromhex("2F86FA60A081091A23DD795E1E3C689EE512A3C82EE0DCC2643C78EEA8FCACD3"
                                "5492558486B20F1C9EC197C90699850260C93BCBCD9C5C3317E19344E173AE36"
                                "1081B394696FFE8E6585E7A9362D26B6325F56778AADBC081C0BFBE933D52FF5"
                                "823CE288E8C4F362526080DF7F70CE406A6EEB1F56919CB92A9853BDE73E5B4A")
    assert verify(prm, h, sig, pub)
    bad = bytes([sig[0] ^ 1]) + sig[1:]
    assert not verify(prm, h, bad, pub)
    return True


if __name__ == "__main__":
    print("g12s selftest:", selftest())
