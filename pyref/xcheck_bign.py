"""Cross-check of the bign / bign96 reference model (pyref/bign.py) against the compiled library.
Run:  python3-vt /verif/pyref/xcheck_bign.py [seed] [scale]

Every comparison is counted per category; every mismatch (or library crash) is recorded and
printed at the end -- nothing is absorbed.  The model follows the standard/header; where the
library is known (from the first runs) to deviate, BOTH variants of the model are evaluated so
that the report says precisely which one the library implements.
"""
import os
import random
import sys
import time

sys.path.insert(0, "/verif/lib")
sys.path.insert(0, os.path.dirname(os.path.abspath(__file__)))
from x import X, GEN, Crash  # noqa: E402
import bign  # noqa: E402
import belt  # noqa: E402

SEED = int(sys.argv[1]) if len(sys.argv) > 1 else 20260926
SCALE = float(sys.argv[2]) if len(sys.argv) > 2 else 1.0
rnd = random.Random(SEED)


def pinned(config):
    """executor on a private copy of the binary: the build cache is pruned when /repo changes
    (other agents commit fixes while this runs), a respawn after a crash must still work"""
    import shutil
    import tempfile
    ex = X(config)
    d = tempfile.mkdtemp(prefix="xcheck_bign_%s_" % config)
    shutil.copy2(os.path.join(ex.dir, "b2x"), os.path.join(d, "b2x"))
    print("executor %s: %s" % (config, ex.dir))
    ex.dir = d
    return ex


x = pinned("asan")

ERR = {0: "ERR_OK", 109: "ERR_BAD_INPUT", 110: "ERR_OUTOFMEMORY", 202: "ERR_FILE_NOT_FOUND",
       301: "ERR_BAD_OID", 304: "ERR_BAD_RNG", 502: "ERR_BAD_PARAMS", 504: "ERR_BAD_PRIVKEY",
       505: "ERR_BAD_PUBKEY", 507: "ERR_BAD_SHAREDKEY", 510: "ERR_BAD_SIG", 513: "ERR_BAD_KEYTOKEN"}

counts = {}
issues = {}


def ok(cat):
    counts[cat] = counts.get(cat, 0) + 1


def issue(cat, **kw):
    counts[cat] = counts.get(cat, 0) + 1
    lst = issues.setdefault(cat, [])
    lst.append(kw)


def cmp(cat, lib, model, **ctx):
    if lib == model:
        ok(cat)
        return True
    issue(cat, lib=_s(lib), model=_s(model), **{k: _s(v) for k, v in ctx.items()})
    return False


def _s(v):
    if isinstance(v, (bytes, bytearray)):
        return bytes(v).hex().upper()
    if isinstance(v, tuple):
        return tuple(_s(u) for u in v)
    if isinstance(v, int) and v > 1 << 32:
        return hex(v)
    return v


def call(fn, *args):
    """library call -> error name, or 'CRASH[kind]: first line' (executor restarted)"""
    try:
        code = x.call(fn, *args)
        return ERR.get(code, "ERR_%d" % code)
    except Crash as c:
        first = [ln for ln in c.text.splitlines() if "Assertion" in ln or "ERROR" in ln or "runtime error" in ln]
        return "CRASH[%s]: %s" % (c.kind, (first[0] if first else c.text[:200]).strip()[:300])


OID = bign.oid_to_der("1.2.112.0.2.0.34.101.31.81")
LEVELS = (128, 192, 256)


def pbuf(params):
    return x.buf(bign.params_to_struct(params))


def names(l):
    return ("bign96" if l == 96 else "bign")


def F(l, name):
    """library function name for the level: bignSign / bign96Sign"""
    return ("bign96" if l == 96 else "bign") + name


def i2o(v, n):
    return bign.i2o(v, n)


def tape_pos(t):
    return int.from_bytes(t.read(0, 8), "little")


def hashes(l):
    P = bign._P(l)
    n = bign.no_of(l)
    q = P["q"]
    return [bytes(n), i2o(1, n), i2o(q - 1, n), i2o(q, n), i2o(q + 1, n), b"\xFF" * n, rnd.randbytes(n),
            rnd.randbytes(n), i2o(rnd.randrange(q), n)]


def rand_d(l):
    q = bign._P(l)["q"]
    return rnd.choice([1, 2, q - 1, q - 2] + [rnd.randrange(1, q)] * 6)


def top_bit(l):
    return bign.BIGN96_TOP_BIT_LIB if l == 96 else None


# ------------------------------------------------------------------------------------------------
def check_params():
    for l in LEVELS + (96,):
        x.reset()
        pb = x.zero(8 + 5 * 64 + 8)
        e = call(F(l, "ParamsStd"), pb, x.buf(bign.STD_NAMES[l].encode() + b"\0"))
        cmp("params.std", (e, pb.read()), ("ERR_OK", bign.params_to_struct(l)), l=l)
        cmp("params.val", call(F(l, "ParamsVal"), pb), "ERR_OK" if bign.params_val(l) else "ERR_BAD_PARAMS", l=l)
        # altered parameters must be rejected by ParamsVal as by 6.1.4
        for field in ("b", "yG", "q", "seed"):
            P = bign.std_params(l)
            P[field] ^= 2 if field == "q" else 1
            if field == "q":
                pass
            want = "ERR_OK" if bign.params_val(P) else "ERR_BAD_PARAMS"
            cmp("params.val_altered", call(F(l, "ParamsVal"), pbuf(P)), want, l=l, field=field)


# ------------------------------------------------------------------------------------------------
def check_oid():
    x.reset()
    strings = ["1.2.112.0.2.0.34.101.31.81", "2.999.4294967295", "0.39", "1.0.128.16384", "2.0", "1.2.3.4.5.6.7.8.9",
               "3.1", "1.40", "1", "1.02", "1.2.4294967296", "1..2", "", "1.2.", ".1.2", "2.4294967295", "2.4294967216",
               "2.4294967215", "0.0", "1.39.0", "a.b", "1.2.-3"]
    for s in strings:
        x.reset()
        cnt = x.buf((64).to_bytes(8, "little"))
        out = x.zero(64)
        e = call("bignOidToDER", out, cnt, x.buf(s.encode() + b"\0"))
        want = bign.oid_to_der(s)
        if want is None:
            cmp("oid.to_der", e, "ERR_BAD_OID", oid=s)
        else:
            n = int.from_bytes(cnt.read(), "little")
            cmp("oid.to_der", (e, out.read(0, min(n, 64))), ("ERR_OK", want), oid=s)
    # DER codes as the oid_der input of bignVerify: ERR_BAD_OID iff not an admissible OID
    l = 128
    n = 32
    ders = [OID, b"\x06\x00", b"\x06\x01\x81", b"\x06\x02\x80\x01", b"\x05\x01\x01", b"\x06\x01\x01\x00",
            b"\x06\x02\x01", b"\x06\x81\x01\x01", b"\x06\x01\x01", b"\x06\x03\x2A\x80\x01", b"\x06\x03\x2A\x81\x80",
            b"\x06\x06\x2A\x8F\xFF\xFF\xFF\x7F", b"\x06\x06\x2A\x90\x80\x80\x80\x00", b"\x06\x05\x8F\xFF\xFF\xFF\x7F",
            b"\x06\x06\x90\x80\x80\x80\x80\x4F", b"\x06\x06\x90\x80\x80\x80\x80\x50", b"\x06", b"",
            b"\x06\x82\x00\x01\x01", b"\x06\x80\x01\x00\x00", b"\x86\x01\x01", b"\x06\x02\x2A\xFF"]
    for _ in range(int(30 * SCALE)):
        d = bytearray(OID)
        d[rnd.randrange(len(d))] ^= 1 << rnd.randrange(8)
        ders.append(bytes(d))
    d = 5
    Qo = bign.point_to_octets(l, bign.pubkey_calc(l, d))
    H = rnd.randbytes(n)
    for der in ders:
        x.reset()
        valid = bign.oid_der_is_valid(der)
        sig = bign.sign(l, der, H, d, 12345) if valid else bytes(48)
        want = bign.verify_code(l, der, H, sig, Qo)
        e = call("bignVerify", pbuf(l), x.buf(der), len(der), x.buf(H), x.buf(sig), x.buf(Qo))
        cmp("oid.der_in_verify", e, want, der=der)
        t = x.tape(i2o(777, 32))
        so = x.out(48)
        e = call("bignSign", so, pbuf(l), x.buf(der), len(der), x.buf(H), x.buf(i2o(d, 32)), GEN, t)
        cmp("oid.der_in_sign", e, "ERR_OK" if valid else "ERR_BAD_OID", der=der)


# ------------------------------------------------------------------------------------------------
def bad_pubkeys(l, Q):
    """(label, octets) list of interesting public key strings derived from the valid point Q"""
    P = bign._P(l)
    p, n = P["p"], bign.no_of(l)
    E = bign.curve(l)
    xq, yq = Q
    out = [("valid", (xq, yq)), ("neg", (xq, p - yq)), ("G", bign.base(l)), ("-G", (0, p - P["yG"])),
           ("x+p", (xq + p, yq)), ("y+p", (xq, yq + p)), ("x=p", (p, P["yG"])), ("y=p", (xq, p)),
           ("y+1", (xq, (yq + 1) % p)), ("x+1", ((xq + 1) % p, yq)), ("swap", (yq, xq)), ("0,0", (0, 0)),
           ("x,0", (xq, 0)), ("max", (2 ** (8 * n) - 1, 2 ** (8 * n) - 1)), ("rand", (rnd.randrange(p), rnd.randrange(p)))]
    res = []
    for lab, (u, v) in out:
        if u >= 2 ** (8 * n) or v >= 2 ** (8 * n):
            continue
        res.append((lab, i2o(u, n) + i2o(v, n)))
    return res


def check_keys():
    for l in LEVELS + (96,):
        P = bign._P(l)
        q, p, n = P["q"], P["p"], bign.no_of(l)
        for it in range(int(6 * SCALE)):
            x.reset()
            pb = pbuf(l)
            d = [1, q - 1, 2][it] if it < 3 else rand_d(l)
            Q = bign.pubkey_calc(l, d)
            Qo = bign.point_to_octets(l, Q)
            out = x.out(2 * n)
            e = call(F(l, "PubkeyCalc"), out, pb, x.buf(i2o(d, n)))
            cmp("keys.pubkey_calc", (e, out.read()), ("ERR_OK", Qo), l=l, d=d)
            cmp("keys.keypair_val", call(F(l, "KeypairVal"), pb, x.buf(i2o(d, n)), x.buf(Qo)), "ERR_OK", l=l, d=d)
            for lab, o in bad_pubkeys(l, Q):
                want = "ERR_OK" if bign.pubkey_val(l, o) else "ERR_BAD_PUBKEY"
                cmp("keys.pubkey_val", call(F(l, "PubkeyVal"), pb, x.buf(o)), want, l=l, case=lab, Q=o)
                want = "ERR_OK" if bign.keypair_val(l, d, o) else "ERR_BAD_PUBKEY"
                cmp("keys.keypair_val_badpub", call(F(l, "KeypairVal"), pb, x.buf(i2o(d, n)), x.buf(o)), want, l=l, case=lab)
        # invalid private keys
        Qo = bign.point_to_octets(l, bign.base(l))
        for d in (0, q, q + 1, p - 1, p, 2 ** (8 * n) - 1):
            x.reset()
            pb = pbuf(l)
            db = x.buf(i2o(d, n))
            cmp("keys.bad_privkey", call(F(l, "PubkeyCalc"), x.out(2 * n), pb, db), "ERR_BAD_PRIVKEY", l=l, d=d)
            cmp("keys.bad_privkey", call(F(l, "KeypairVal"), pb, db, x.buf(Qo)), "ERR_BAD_PRIVKEY", l=l, d=d)
            if l != 96:
                cmp("keys.bad_privkey", call("bignDH", x.out(n), pb, db, x.buf(Qo), n), "ERR_BAD_PRIVKEY", l=l, d=d)
            t = x.tape(bytes(n) + i2o(3, n))
            cmp("keys.bad_privkey", call(F(l, "Sign"), x.out(bign._s0_len(P) + n), pb, x.buf(OID), len(OID),
                                         x.buf(bytes(n)), db, GEN, t), "ERR_BAD_PRIVKEY", l=l, d=d)
            cmp("keys.bad_privkey", call(F(l, "Sign2"), x.out(bign._s0_len(P) + n), pb, x.buf(OID), len(OID),
                                         x.buf(bytes(n)), db, None, 0), "ERR_BAD_PRIVKEY", l=l, d=d)


def check_keygen():
    for l in LEVELS + (96,):
        P = bign._P(l)
        q, p, n = P["q"], P["p"], bign.no_of(l)
        crafted = [
            ("rand", rnd.randbytes(n)),
            ("0,then", bytes(n) + i2o(7, n)),
            ("1", i2o(1, n)),
            ("q-1", i2o(q - 1, n)),
            ("q,then", i2o(q, n) + i2o(9, n)),
            ("q+1,then", i2o(q + 1, n) + i2o(9, n)),
            ("p-1,then", i2o(p - 1, n) + i2o(9, n)),
            ("p,then", i2o(p, n) + i2o(9, n)),
            ("max,0,q,then", b"\xFF" * n + bytes(n) + i2o(q, n) + i2o(11, n)),
        ] + [("rand", rnd.randbytes(n)) for _ in range(int(6 * SCALE))]
        for lab, tp in crafted:
            x.reset()
            t = x.tape(tp + bytes(n) * 70, mode=1)
            priv, pub = x.out(n), x.out(2 * n)
            e = call(F(l, "KeypairGen"), priv, pub, pbuf(l), GEN, t)
            got = (e, priv.read(), pub.read(), tape_pos(t)) if e == "ERR_OK" else (e,)
            res = {}
            for mod in ("q", "p"):
                d, Q, used = bign.keypair_from_tape(l, tp + bytes(n) * 70, mod)
                if d is None:
                    res[mod] = ("ERR_BAD_RNG",)
                elif Q is None:
                    res[mod] = ("ERR_BAD_PARAMS",)      # d = q accepted, Q = qG = O cannot be output
                else:
                    res[mod] = ("ERR_OK", i2o(d, n), bign.point_to_octets(l, Q), used)
            if not cmp("keygen.standard(d mod q)", got, res["q"], l=l, tape=lab, model_mod_p=res["p"]):
                cmp("keygen.library_rule(d mod p)", got, res["p"], l=l, tape=lab)
            if e == "ERR_OK":
                # whatever was generated must be a valid key pair (6.2.2: 0 < d < q, Q = dG)
                d = bign.o2i(got[1])
                cmp("keygen.output_is_valid_pair", bign.keypair_val(l, d, got[2]), True, l=l, tape=lab, d=d)
        # generator that never delivers an acceptable number -> ERR_BAD_RNG
        for mode in (1, 2):
            x.reset()
            t = x.tape(b"", mode=mode)
            e = call(F(l, "KeypairGen"), x.out(n), x.out(2 * n), pbuf(l), GEN, t)
            cmp("keygen.bad_rng", (e, tape_pos(t)), ("ERR_BAD_RNG", 65 * n), l=l, mode=mode)


# ------------------------------------------------------------------------------------------------
def lib_sign(l, H, d, tape_bytes):
    P = bign._P(l)
    n = bign.no_of(l)
    t = x.tape(tape_bytes + bytes(n) * 70, mode=1)
    so = x.out(bign._s0_len(P) + n)
    e = call(F(l, "Sign"), so, pbuf(l), x.buf(OID), len(OID), x.buf(H), x.buf(i2o(d, n)), GEN, t)
    if e != "ERR_OK":
        return (e,)
    return (e, so.read(), tape_pos(t))


def check_sign():
    for l in LEVELS + (96,):
        P = bign._P(l)
        q, n = P["q"], bign.no_of(l)
        for it in range(int(10 * SCALE)):
            d = rand_d(l)
            for H in hashes(l):
                x.reset()
                kind = rnd.randrange(4)
                if kind == 0:
                    tp = i2o(q, n) + bytes(n) + b"\xFF" * n + i2o(rnd.randrange(1, q), n)
                elif kind == 1:
                    tp = i2o(rnd.choice([1, q - 1]), n)
                else:
                    tp = rnd.randbytes(n)
                got = lib_sign(l, H, d, tp)
                sig, used = bign.sign_from_tape(l, OID, H, d, tp + bytes(n) * 70, top_bit(l))
                hclass = "H<q" if bign.o2i(H) < q else "H>=q"
                if cmp("sign[%s] %s" % (hclass, names(l)), got, ("ERR_OK", sig, used), l=l, H=H, d=d, tape=tp[:n]):
                    Qo = bign.point_to_octets(l, bign.pubkey_calc(l, d))
                    e = call(F(l, "Verify"), pbuf(l), x.buf(OID), len(OID), x.buf(H), x.buf(sig), x.buf(Qo))
                    cmp("verify.valid", e, "ERR_OK", l=l)
        if l == 96:
            # the documented multiplier S0 + 2^96 (recorded separately)
            H, d, tp = rnd.randbytes(n), rand_d(l), rnd.randbytes(n)
            x.reset()
            got = lib_sign(l, H, d, tp)
            sig, used = bign.sign_from_tape(l, OID, H, d, tp + bytes(n) * 70, bign.BIGN96_TOP_BIT_DOC)
            cmp("sign96.documented_multiplier(S0+2^l)", got, ("ERR_OK", sig, used), H=H, d=d, tape=tp)
        # bad generator
        x.reset()
        t = x.tape(b"", mode=2)
        e = call(F(l, "Sign"), x.out(bign._s0_len(P) + n), pbuf(l), x.buf(OID), len(OID), x.buf(bytes(n)),
                 x.buf(i2o(1, n)), GEN, t)
        cmp("sign.bad_rng", (e, tape_pos(t)), ("ERR_BAD_RNG", 65 * n), l=l)


def lib_sign2(l, params, H, d, t):
    P = bign._P(params)
    n = bign.no_of(P)
    so = x.out(bign._s0_len(P) + n)
    tb = x.buf(t) if t is not None else None
    e = call(F(l, "Sign2"), so, pbuf(P), x.buf(OID), len(OID), x.buf(H), x.buf(i2o(d, n)), tb, len(t) if t is not None else 0)
    if e != "ERR_OK":
        return (e,)
    return (e, so.read())


def check_sign2():
    for l in LEVELS + (96,):
        P = bign._P(l)
        q, n = P["q"], bign.no_of(l)
        for it in range(int(6 * SCALE)):
            d = rand_d(l)
            for H in hashes(l):
                x.reset()
                t = rnd.choice([None, b"", rnd.randbytes(rnd.randrange(1, 70))])
                got = lib_sign2(l, l, H, d, t)
                if l == 96:
                    sig = bign.sign96_2(OID, H, d, t, bign.BIGN96_TOP_BIT_LIB)
                else:
                    sig = bign.sign2(l, OID, H, d, t)
                hclass = "H<q" if bign.o2i(H) < q else "H>=q"
                cmp("sign2[%s] %s" % (hclass, names(l)), got, ("ERR_OK", sig), l=l, H=H, d=d, t=t)
    # 6.3.3 with more than one belt-wblock application: only observable when candidates are
    # rejected, i.e. q just above 2^(2l-1).  Non-standard order q' (the other fields standard;
    # the library does not validate q beyond its size); the one-time key is recovered from the
    # signature as in test G.6: k = (S1 + (S0 + 2^l) d + H) mod q'.
    for l in LEVELS:
        n = bign.no_of(l)
        for it in range(int(12 * SCALE)):
            P = bign.std_params(l)
            P["q"] = 2 ** (2 * l - 1) + 2 * rnd.randrange(2 ** 64) + 1
            q = P["q"]
            d = rnd.randrange(1, q)
            H = i2o(rnd.randrange(q), n)
            t = rnd.choice([None, rnd.randbytes(5)])
            x.reset()
            got = lib_sign2(l, P, H, d, t)
            if got[0] != "ERR_OK":
                issue("sign2.genk_iterations", l=l, lib=got, q=hex(q))
                continue
            sig = got[1]
            k_lib = (bign.o2i(sig[l // 8:]) + (bign.o2i(sig[:l // 8]) + 2 ** l) * d + bign.o2i(H)) % q
            k_std, apps = bign.genk(P, OID, d, H, t)
            k_rst, apps_r = bign.genk(P, OID, d, H, t, reset_counter=True)
            if apps == 1:
                cmp("sign2.genk 1 application", k_lib, k_std, l=l)
            else:
                if not cmp("sign2.genk >1 applications: standard (counter i continues)", k_lib, k_std,
                           l=l, q=hex(q), d=d, H=H, t=t, apps=apps, k_reset_variant=hex(k_rst)):
                    cmp("sign2.genk >1 applications: counter restarted per application", k_lib, k_rst, l=l, apps=apps_r)
    # bignIdSign2 uses the same one-time key generation (on the identity private key e)
    for l in LEVELS:
        n = bign.no_of(l)
        for it in range(int(8 * SCALE)):
            P = bign.std_params(l)
            P["q"] = 2 ** (2 * l - 1) + 2 * rnd.randrange(2 ** 64) + 1
            q = P["q"]
            e_ = rnd.randrange(0, q)
            H = i2o(rnd.randrange(q), n)
            H0 = rnd.randbytes(n)
            x.reset()
            so = x.out(n // 2 + n)
            err = call("bignIdSign2", so, pbuf(P), x.buf(OID), len(OID), x.buf(H0), x.buf(H), x.buf(i2o(e_, n)), None, 0)
            if err != "ERR_OK":
                issue("idsign2.genk_iterations", l=l, lib=err, q=hex(q))
                continue
            sig = so.read()
            k_lib = (bign.o2i(sig[l // 8:]) + (bign.o2i(sig[:l // 8]) + 2 ** l) * e_ + bign.o2i(H)) % q
            k_std, apps = bign.genk(P, OID, e_, H, None)
            k_rst, apps_r = bign.genk(P, OID, e_, H, None, reset_counter=True)
            if apps == 1:
                cmp("idsign2.genk 1 application", k_lib, k_std, l=l)
            elif not cmp("idsign2.genk >1 applications: standard (counter i continues)", k_lib, k_std,
                         l=l, q=hex(q), e=e_, H=H, apps=apps, k_reset_variant=hex(k_rst)):
                cmp("idsign2.genk >1 applications: counter restarted per application", k_lib, k_rst, l=l, apps=apps_r)
    # same for bign96 (belt-32block, counter continues according to bign96.c)
    for it in range(int(12 * SCALE)):
        P = bign.std_params(96)
        P["q"] = 2 ** 191 + 2 * rnd.randrange(2 ** 64) + 1
        q = P["q"]
        d = rnd.randrange(1, q)
        H = i2o(rnd.randrange(q), 24)
        x.reset()
        got = lib_sign2(96, P, H, d, None)
        if got[0] != "ERR_OK":
            issue("sign2_96.genk_iterations", lib=got, q=hex(q))
            continue
        sig = got[1]
        k_lib = (bign.o2i(sig[10:]) + (bign.o2i(sig[:10]) + 2 ** 103) * d + bign.o2i(H)) % q
        k_std, apps = bign.genk96(OID, d, H, None, P)
        cmp("sign2_96.genk %s" % ("1 application" if apps == 1 else ">1 applications"), k_lib, k_std, apps=apps)


def check_sign_release():
    """H >= q on a build WITHOUT assertions (-DNDEBUG, -O3): what do bignSign/bignSign2 return?"""
    global x
    saved = x
    x = pinned("rel")
    try:
        for l in LEVELS + (96,):
            P = bign._P(l)
            q, n = P["q"], bign.no_of(l)
            for it in range(int(20 * SCALE)):
                d = rand_d(l)
                H = rnd.choice([i2o(q, n), i2o(q + 1, n), b"\xFF" * n, i2o(rnd.randrange(q, 2 ** (8 * n)), n)])
                tp = rnd.randbytes(n)
                Qo = bign.point_to_octets(l, bign.pubkey_calc(l, d))
                x.reset()
                got = lib_sign(l, H, d, tp)
                sig, used = bign.sign_from_tape(l, OID, H, d, tp + bytes(n) * 70, top_bit(l))
                same = cmp("release build: sign[H>=q] %s" % names(l), got, ("ERR_OK", sig, used), l=l, H=H, d=d, tape=tp)
                if not same and got[0] == "ERR_OK":
                    cmp("release build: sign[H>=q] %s: library verifies its own signature" % names(l),
                        lib_verify(l, H, got[1], Qo), "ERR_OK", l=l, H=H, sig=got[1])
                x.reset()
                got = lib_sign2(l, l, H, d, None)
                sig = bign.sign96_2(OID, H, d, None, bign.BIGN96_TOP_BIT_LIB) if l == 96 else bign.sign2(l, OID, H, d)
                same = cmp("release build: sign2[H>=q] %s" % names(l), got, ("ERR_OK", sig), l=l, H=H, d=d)
                if not same and got[0] == "ERR_OK":
                    cmp("release build: sign2[H>=q] %s: library verifies its own signature" % names(l),
                        lib_verify(l, H, got[1], Qo), "ERR_OK", l=l, H=H, sig=got[1])
            # crafted: d such that (k - (S0 + 2^l) d) mod q = u is tiny (u < H - q): the final
            # subtraction "u - H mod q" is done by zzSubMod with the unreduced H
            for it in range(int(6 * SCALE) + 1):
                k = rnd.randrange(1, q)
                H = rnd.choice([b"\xFF" * n, i2o(q + 1 + rnd.randrange(2 ** 40), n)])
                R = bign.curve(l).mul(k, bign.base(l))
                S0 = belt.hash(OID + i2o(R[0], n) + H)[:bign._s0_len(P)]
                mult = bign.o2i(S0) + 2 ** (top_bit(l) if l == 96 else l)
                u = rnd.choice([0, 1, bign.o2i(H) - q - 1])
                d = (k - u) * pow(mult, -1, q) % q
                if d == 0:
                    continue
                Qo = bign.point_to_octets(l, bign.pubkey_calc(l, d))
                x.reset()
                got = lib_sign(l, H, d, i2o(k, n))
                sig, used = bign.sign_from_tape(l, OID, H, d, i2o(k, n), top_bit(l))
                same = cmp("release build: sign[H>=q, crafted d] %s" % names(l), got, ("ERR_OK", sig, used),
                           l=l, H=H, d=d, k=k, u=u)
                if not same and got[0] == "ERR_OK":
                    cmp("release build: sign[H>=q, crafted d] %s: library verifies its own signature" % names(l),
                        lib_verify(l, H, got[1], Qo), "ERR_OK", l=l, H=H, sig=got[1],
                        s1_lt_q=bign.o2i(got[1][bign._s0_len(P):]) < q)
    finally:
        x.close()
        x = saved


# ------------------------------------------------------------------------------------------------
def lib_verify(l, H, sig, Qo, oid=OID):
    return call(F(l, "Verify"), pbuf(l), x.buf(oid), len(oid), x.buf(H), x.buf(sig), x.buf(Qo))


def cmp_verdict(cat, lib_code, model_code, **ctx):
    """verdict level: ERR_OK iff ERR_OK; the precise code is compared in a second category"""
    if (lib_code == "ERR_OK") != (model_code == "ERR_OK") or lib_code.startswith("CRASH"):
        issue(cat + " VERDICT", lib=lib_code, model=model_code, **{k: _s(v) for k, v in ctx.items()})
    else:
        ok(cat + " VERDICT")
        cmp(cat + " error code", lib_code, model_code, **ctx)


def check_verify():
    for l in LEVELS + (96,):
        P = bign._P(l)
        q, p, n = P["q"], P["p"], bign.no_of(l)
        n0 = bign._s0_len(P)
        tb = top_bit(l)
        E = bign.curve(l)
        for it in range(int(4 * SCALE)):
            d = rand_d(l)
            Q = bign.pubkey_calc(l, d)
            Qo = bign.point_to_octets(l, Q)
            for H in hashes(l)[2:7]:
                k = rnd.randrange(1, q)
                sig = bign.sign(l, OID, H, d, k, tb)
                x.reset()
                cmp_verdict("verify.valid", lib_verify(l, H, sig, Qo), bign.verify_code(l, OID, H, sig, Qo, tb), l=l)
                muts = []
                s1 = bign.o2i(sig[n0:])
                if s1 + q < 2 ** (8 * n):
                    muts.append(("s1+q", sig[:n0] + i2o(s1 + q, n)))
                muts.append(("s1=q", sig[:n0] + i2o(q, n)))
                muts.append(("s1=q-1", sig[:n0] + i2o(q - 1, n)))
                muts.append(("s1=0", sig[:n0] + bytes(n)))
                muts.append(("s1=max", sig[:n0] + b"\xFF" * n))
                muts.append(("s0=0", bytes(n0) + sig[n0:]))
                muts.append(("s0=max", b"\xFF" * n0 + sig[n0:]))
                muts.append(("zero", bytes(n0 + n)))
                bits = sorted(set(rnd.sample(range(8 * (n0 + n)), 12) + [0, 7, 8 * n0 - 1, 8 * n0, 8 * (n0 + n) - 1]))
                for b in bits:
                    m = bytearray(sig)
                    m[b // 8] ^= 1 << (b % 8)
                    muts.append(("flip%d" % b, bytes(m)))
                for lab, m in muts:
                    x.reset()
                    cmp_verdict("verify.mutated_sig", lib_verify(l, H, m, Qo), bign.verify_code(l, OID, H, m, Qo, tb),
                                l=l, case=lab, H=H, sig=m, Q=Qo)
                # other hash / other oid
                H2 = bytearray(H)
                H2[rnd.randrange(n)] ^= 1 << rnd.randrange(8)
                x.reset()
                cmp_verdict("verify.other_hash", lib_verify(l, bytes(H2), sig, Qo),
                            bign.verify_code(l, OID, bytes(H2), sig, Qo, tb), l=l)
                if bign.o2i(H) + q < 2 ** (8 * n):
                    # H and H + q are different strings but the same number mod q: S1 fits both,
                    # S0 depends on the string H -> must be rejected
                    H3 = i2o(bign.o2i(H) + q, n)
                    x.reset()
                    cmp_verdict("verify.hash+q", lib_verify(l, H3, sig, Qo), bign.verify_code(l, OID, H3, sig, Qo, tb), l=l)
                oid2 = bign.oid_to_der("1.2.112.0.2.0.34.101.31.82")
                x.reset()
                cmp_verdict("verify.other_oid", lib_verify(l, H, sig, Qo, oid2), bign.verify_code(l, oid2, H, sig, Qo, tb), l=l)
                # public keys
                for lab, o in bad_pubkeys(l, Q):
                    x.reset()
                    cmp_verdict("verify.pubkey_variants", lib_verify(l, H, sig, o), bign.verify_code(l, OID, H, sig, o, tb),
                                l=l, case=lab, H=H, sig=sig, Q=o)
        # all single-bit flips of one signature per level
        d = rand_d(l)
        Qo = bign.point_to_octets(l, bign.pubkey_calc(l, d))
        H = rnd.randbytes(n)
        sig = bign.sign(l, OID, H, d, rnd.randrange(1, q), tb)
        step = 1 if SCALE >= 1 else 5
        for b in range(0, 8 * (n0 + n), step):
            m = bytearray(sig)
            m[b // 8] ^= 1 << (b % 8)
            x.reset()
            cmp_verdict("verify.every_bit_flip", lib_verify(l, H, bytes(m), Qo),
                        bign.verify_code(l, OID, H, bytes(m), Qo, tb), l=l, bit=b)
        # forged signature for a "public key" that is NOT on the curve: Q = (x, 0) has order 2 under
        # the addition formulas (they do not involve b).  Choose S1 = -H mod q (so that the G-part
        # vanishes) and S0 = <belt-hash(OID || <x>_2l || H)>_l; when S0 + 2^top is odd,
        # (S0 + 2^top) Q "=" Q and the check of 7.1.4 passes although Q is not a valid key.
        tries = 0
        done = 0
        while done < int(3 * SCALE) and tries < 200:
            tries += 1
            xq = rnd.randrange(p)
            if E.is_on((xq, 0)):
                continue
            H = rnd.randbytes(n)
            S0 = belt.hash(OID + i2o(xq, n) + H)[:n0]
            if bign.o2i(S0) % 2 == 0:
                continue
            done += 1
            sig = S0 + i2o((-bign.o2i(H)) % q, n)
            Qo = i2o(xq, n) + bytes(n)
            x.reset()
            cmp_verdict("verify.forgery_with_off_curve_order2_key", lib_verify(l, H, sig, Qo),
                        bign.verify_code(l, OID, H, sig, Qo, tb), l=l, H=H, sig=sig, Q=Qo,
                        PubkeyVal=call(F(l, "PubkeyVal"), pbuf(l), x.buf(Qo)))
        # R = O in step 3: S1 = -H - (S0 + 2^l) d  for any S0  -> must be rejected
        d = rand_d(l)
        Qo = bign.point_to_octets(l, bign.pubkey_calc(l, d))
        for _ in range(3):
            H = rnd.randbytes(n)
            S0 = rnd.randbytes(n0)
            mult = bign.o2i(S0) + 2 ** (tb if tb is not None else l)
            sig = S0 + i2o((-bign.o2i(H) - mult * d) % q, n)
            x.reset()
            cmp_verdict("verify.R=O", lib_verify(l, H, sig, Qo), bign.verify_code(l, OID, H, sig, Qo, tb), l=l, sig=sig)


# ------------------------------------------------------------------------------------------------
def check_dh():
    for l in LEVELS:
        P = bign._P(l)
        q, n = P["q"], bign.no_of(l)
        for it in range(int(5 * SCALE)):
            d, d2 = rand_d(l), rand_d(l)
            Q = bign.pubkey_calc(l, d2)
            for lab, o in bad_pubkeys(l, Q):
                for key_len in sorted({0, 1, n - 1, n, n + 1, 2 * n, 2 * n + 1, rnd.randrange(2 * n + 1)}):
                    x.reset()
                    out = x.out(min(key_len, 2 * n))
                    e = call("bignDH", out, pbuf(l), x.buf(i2o(d, n)), x.buf(o), key_len)
                    try:
                        want = ("ERR_OK", bign.dh(l, d, o, key_len))
                    except ValueError as ex:
                        want = (str(ex),)
                    got = (e, out.read()) if e == "ERR_OK" else (e,)
                    cmp("dh", got, want, l=l, case=lab, key_len=key_len)


def check_keywrap():
    for l in LEVELS:
        P = bign._P(l)
        q, p, n = P["q"], P["p"], bign.no_of(l)
        E = bign.curve(l)
        for it in range(int(8 * SCALE)):
            d = rand_d(l)
            Q = bign.pubkey_calc(l, d)
            Qo = bign.point_to_octets(l, Q)
            klen = rnd.choice([16, 17, 31, 32, 33, 48, rnd.randrange(16, 80)])
            key = rnd.randbytes(klen)
            header = rnd.choice([None, bytes(16), rnd.randbytes(16)])
            tp = rnd.choice([rnd.randbytes(n), i2o(q, n) + rnd.randbytes(n), i2o(1, n), i2o(q - 1, n)])
            x.reset()
            t = x.tape(tp + bytes(n) * 70, mode=1)
            tok = x.out(n + klen + 16)
            hb = x.buf(header) if header is not None else None
            e = call("bignKeyWrap", tok, pbuf(l), x.buf(key), klen, hb, x.buf(Qo), GEN, t)
            want, used = bign.key_wrap_from_tape(l, key, header, Qo, tp + bytes(n) * 70)
            got = (e, tok.read(), tape_pos(t)) if e == "ERR_OK" else (e,)
            if not cmp("keywrap", got, ("ERR_OK", want, used), l=l, klen=klen):
                continue
            token = want
            cases = [("valid", token, header)]
            for _ in range(6):
                m = bytearray(token)
                m[rnd.randrange(len(m))] ^= 1 << rnd.randrange(8)
                cases.append(("flip", bytes(m), header))
            cases.append(("hdr", token, rnd.randbytes(16)))
            cases.append(("hdr0", token, None))
            cases.append(("short", token[:n + 31], header))
            cases.append(("short32", token[:n + 32], header))
            cases.append(("x>=p", i2o(p + rnd.randrange(2 ** (8 * n) - p), n) + token[n:], header))
            # x with x^3 + ax + b a non-residue
            while True:
                xx = rnd.randrange(p)
                if pow((xx ** 3 + P["a"] * xx + P["b"]) % p, (p - 1) // 2, p) == p - 1:
                    break
            cases.append(("x not on curve", i2o(xx, n) + token[n:], header))
            for lab, tk, hd in cases:
                x.reset()
                out = x.out(max(len(tk) - n - 16, 0))
                hb = x.buf(hd) if hd is not None else None
                e = call("bignKeyUnwrap", out, pbuf(l), x.buf(tk), len(tk), hb, x.buf(i2o(d, n)))
                w = bign.key_unwrap(l, tk, hd, d)
                want = ("ERR_BAD_KEYTOKEN",) if w is None else ("ERR_OK", w)
                got = (e, out.read()) if e == "ERR_OK" else (e,)
                cmp("keyunwrap", got, want, l=l, case=lab, klen=klen)
        # len < 16 must be refused
        x.reset()
        t = x.tape(rnd.randbytes(n))
        Qo = bign.point_to_octets(l, bign.base(l))
        e = call("bignKeyWrap", x.out(n + 15 + 16), pbuf(l), x.buf(bytes(15)), 15, None, x.buf(Qo), GEN, t)
        cmp("keywrap.len<16", e, "ERR_BAD_INPUT", l=l)
        # invalid recipient keys (7.2.3 is defined for a valid public key; bign.h: ERR_BAD_PUBKEY)
        for lab, o in bad_pubkeys(l, bign.pubkey_calc(l, 5)):
            x.reset()
            tp = rnd.randbytes(n)
            t = x.tape(tp + bytes(n) * 70, mode=1)
            tok = x.out(n + 32)
            e = call("bignKeyWrap", tok, pbuf(l), x.buf(bytes(16)), 16, None, x.buf(o), GEN, t)
            try:
                want = ("ERR_OK", bign.key_wrap_from_tape(l, bytes(16), None, o, tp + bytes(n) * 70)[0])
            except ValueError as ex:
                want = (str(ex),)
            got = (e, tok.read()) if e == "ERR_OK" else (e,)
            cmp("keywrap.pubkey_variants", got, want, l=l, case=lab, Q=o)


# ------------------------------------------------------------------------------------------------
def check_ibs():
    for l in LEVELS:
        P = bign._P(l)
        q, n = P["q"], bign.no_of(l)
        for it in range(int(4 * SCALE)):
            d = rand_d(l)
            Q = bign.pubkey_calc(l, d)
            Qo = bign.point_to_octets(l, Q)
            id_hash = rnd.choice(hashes(l))
            sig = bign.sign(l, OID, id_hash, d, rnd.randrange(1, q))
            x.reset()
            ip, iq = x.out(n), x.out(2 * n)
            e = call("bignIdExtract", ip, iq, pbuf(l), x.buf(OID), len(OID), x.buf(id_hash), x.buf(sig), x.buf(Qo))
            ext = bign.id_extract(l, OID, id_hash, sig, Qo)
            got = (e, ip.read(), iq.read()) if e == "ERR_OK" else (e,)
            cmp("ibs.extract", got, ("ERR_OK", i2o(ext[0], n), bign.point_to_octets(l, ext[1])), l=l)
            ee, R = ext
            Ro = bign.point_to_octets(l, R)
            # extract with a bad signature / bad key
            m = bytearray(sig)
            m[rnd.randrange(len(m))] ^= 1 << rnd.randrange(8)
            x.reset()
            e = call("bignIdExtract", x.out(n), x.out(2 * n), pbuf(l), x.buf(OID), len(OID), x.buf(id_hash), x.buf(bytes(m)), x.buf(Qo))
            w = bign.id_extract(l, OID, id_hash, bytes(m), Qo)
            cmp_verdict("ibs.extract_bad_sig", e, w if isinstance(w, str) else "ERR_OK", l=l)
            for lab, o in bad_pubkeys(l, Q)[1:]:
                x.reset()
                e = call("bignIdExtract", x.out(n), x.out(2 * n), pbuf(l), x.buf(OID), len(OID), x.buf(id_hash), x.buf(sig), x.buf(o))
                w = bign.id_extract(l, OID, id_hash, sig, o)
                cmp_verdict("ibs.extract_pubkey_variants", e, w if isinstance(w, str) else "ERR_OK", l=l, case=lab)
            for H in hashes(l)[1:7]:
                tp = rnd.randbytes(n)
                x.reset()
                t = x.tape(tp + bytes(n) * 70, mode=1)
                so = x.out(n // 2 + n)
                e = call("bignIdSign", so, pbuf(l), x.buf(OID), len(OID), x.buf(id_hash), x.buf(H), x.buf(i2o(ee, n)), GEN, t)
                want, used = bign.id_sign_from_tape(l, OID, id_hash, H, ee, tp + bytes(n) * 70)
                got = (e, so.read(), tape_pos(t)) if e == "ERR_OK" else (e,)
                hclass = "H<q" if bign.o2i(H) < q else "H>=q"
                cmp("ibs.sign[%s]" % hclass, got, ("ERR_OK", want, used), l=l, H=H)
                x.reset()
                so = x.out(n // 2 + n)
                tt = rnd.choice([None, rnd.randbytes(9)])
                e = call("bignIdSign2", so, pbuf(l), x.buf(OID), len(OID), x.buf(id_hash), x.buf(H), x.buf(i2o(ee, n)),
                         x.buf(tt) if tt is not None else None, len(tt) if tt is not None else 0)
                got = (e, so.read()) if e == "ERR_OK" else (e,)
                cmp("ibs.sign2[%s]" % hclass, got, ("ERR_OK", bign.id_sign2(l, OID, id_hash, H, ee, tt)), l=l, H=H)
                id_sig = want

                def lv(h0, h, s, r, qq):
                    x.reset()
                    return call("bignIdVerify", pbuf(l), x.buf(OID), len(OID), x.buf(h0), x.buf(h), x.buf(s), x.buf(r), x.buf(qq))
                cmp_verdict("ibs.verify_valid", lv(id_hash, H, id_sig, Ro, Qo),
                            bign.id_verify_code(l, OID, id_hash, H, id_sig, Ro, Qo), l=l)
                muts = []
                s1 = bign.o2i(id_sig[n // 2:])
                if s1 + q < 2 ** (8 * n):
                    muts.append(id_sig[:n // 2] + i2o(s1 + q, n))
                muts.append(id_sig[:n // 2] + i2o(q, n))
                for _ in range(5):
                    m = bytearray(id_sig)
                    m[rnd.randrange(len(m))] ^= 1 << rnd.randrange(8)
                    muts.append(bytes(m))
                for m in muts:
                    cmp_verdict("ibs.verify_mutated_sig", lv(id_hash, H, m, Ro, Qo),
                                bign.id_verify_code(l, OID, id_hash, H, m, Ro, Qo), l=l, sig=m)
                for lab, o in bad_pubkeys(l, R)[1:]:
                    cmp_verdict("ibs.verify_id_pubkey_variants", lv(id_hash, H, id_sig, o, Qo),
                                bign.id_verify_code(l, OID, id_hash, H, id_sig, o, Qo), l=l, case=lab)
                for lab, o in bad_pubkeys(l, Q)[1:]:
                    cmp_verdict("ibs.verify_pubkey_variants", lv(id_hash, H, id_sig, Ro, o),
                                bign.id_verify_code(l, OID, id_hash, H, id_sig, Ro, o), l=l, case=lab)
                h2 = bytearray(id_hash)
                h2[0] ^= 1
                cmp_verdict("ibs.verify_other_idhash", lv(bytes(h2), H, id_sig, Ro, Qo),
                            bign.id_verify_code(l, OID, bytes(h2), H, id_sig, Ro, Qo), l=l)


def check_custom_params():
    """Non-standard long-term parameters: random prime p = 3 (mod 4) (not of the special form
    2^(2l) - c, so the library picks another field arithmetic), random a, G = (0, yG), b = yG^2.
    The true group order is unknown, so q is just an odd 2l-bit number: the functions below use q
    only for range checks / arithmetic mod q, and (q G = O is never needed) the model applies."""
    for l in LEVELS + (96,):
        n = bign.no_of(l)
        for it in range(int(3 * SCALE) + 1):
            while True:
                p = rnd.getrandbits(2 * l) | (1 << (2 * l - 1)) | 3
                if bign._is_prime(p):
                    break
            yG = rnd.randrange(1, p)
            P = dict(l=l, p=p, a=rnd.randrange(1, p), b=yG * yG % p, yG=yG, seed=0,
                     q=rnd.getrandbits(2 * l) | (1 << (2 * l - 1)) | 1)
            if not bign.curve(P).is_nonsingular():
                continue
            q = P["q"]
            E = bign.curve(P)
            for d in (1, 2, rnd.randrange(1, q), rnd.randrange(1, q)):
                Q = E.mul(d, bign.base(P))
                if Q is None:
                    continue
                Qo = bign.point_to_octets(P, Q)
                x.reset()
                out = x.out(2 * n)
                e = call(F(l, "PubkeyCalc"), out, pbuf(P), x.buf(i2o(d, n)))
                cmp("custom_p.pubkey_calc", (e, out.read()), ("ERR_OK", Qo), l=l, p=p, d=d)
                cmp("custom_p.pubkey_val", call(F(l, "PubkeyVal"), pbuf(P), x.buf(Qo)), "ERR_OK", l=l, p=p)
                cmp("custom_p.keypair_val(d, dG)", call(F(l, "KeypairVal"), pbuf(P), x.buf(i2o(d, n)), x.buf(Qo)), "ERR_OK",
                    l=l, p=hex(p), a=hex(P["a"]), yG=hex(yG), q=hex(q), d=hex(d), Q=Qo)
                # KeypairGen output fed to KeypairVal
                t = x.tape(i2o(d, n))
                priv, pub = x.out(n), x.out(2 * n)
                e = call(F(l, "KeypairGen"), priv, pub, pbuf(P), GEN, t)
                if d < p:
                    cmp("custom_p.keypair_gen", (e, priv.read(), pub.read()), ("ERR_OK", i2o(d, n), Qo), l=l)
                d2 = rnd.randrange(1, q)
                S = E.mul(d2, Q)
                if S is not None and l != 96:
                    ko = x.out(2 * n)
                    e = call("bignDH", ko, pbuf(P), x.buf(i2o(d2, n)), x.buf(Qo), 2 * n)
                    cmp("custom_p.dh", (e, ko.read()), ("ERR_OK", bign.point_to_octets(P, S)), l=l)
                H = rnd.randbytes(n)
                H = i2o(bign.o2i(H) % q, n)
                k = rnd.randrange(1, q)
                if E.mul(k, bign.base(P)) is None:
                    continue
                sig = bign.sign(P, OID, H, d, k, top_bit(l))
                t = x.tape(i2o(k, n))
                so = x.out(len(sig))
                e = call(F(l, "Sign"), so, pbuf(P), x.buf(OID), len(OID), x.buf(H), x.buf(i2o(d, n)), GEN, t)
                cmp("custom_p.sign", (e, so.read()), ("ERR_OK", sig), l=l)
                # verification: R = ((S1 + H) mod q) G + (S0 + 2^l) Q computed by the definition
                # (it is != kG here because q is not the group order: the verdict is what counts)
                want = bign.verify_code(P, OID, H, sig, Qo, top_bit(l))
                e = call(F(l, "Verify"), pbuf(P), x.buf(OID), len(OID), x.buf(H), x.buf(sig), x.buf(Qo))
                cmp("custom_p.verify", e, want, l=l)


# ------------------------------------------------------------------------------------------------
def report():
    print("\n==== cross-check summary (seed %d, scale %g, %d library calls, %d executor restarts)" %
          (SEED, SCALE, x.calls, x.restarts))
    for cat in sorted(counts):
        bad = len(issues.get(cat, []))
        print("%-70s %6d checks %s" % (cat, counts[cat], ("%d MISMATCH" % bad) if bad else "ok"))
    if issues:
        print("\n==== mismatches (first XCHECK_SHOW=3 per category)")
        for cat in sorted(issues):
            print("--- %s: %d" % (cat, len(issues[cat])))
            for it in issues[cat][:int(os.environ.get("XCHECK_SHOW", "3"))]:
                print("    " + ", ".join("%s=%s" % (k, v) for k, v in it.items()))


def main():
    t0 = time.time()
    sel = [a for a in sys.argv[3:]]
    steps = [("params", check_params), ("oid", check_oid), ("keys", check_keys), ("keygen", check_keygen),
             ("sign", check_sign), ("sign2", check_sign2), ("signrel", check_sign_release), ("verify", check_verify), ("dh", check_dh),
             ("keywrap", check_keywrap), ("ibs", check_ibs), ("custom", check_custom_params)]
    for name, fn in steps:
        if sel and name not in sel:
            continue
        t1 = time.time()
        try:
            fn()
        except Exception as ex:         # a bug of this script: never hide it
            import traceback
            traceback.print_exc()
            issue("SCRIPT ERROR in " + name, error=repr(ex))
        print("[%s] %.1fs" % (name, time.time() - t1), flush=True)
    report()
    print("total %.1fs" % (time.time() - t0))
    x.close()
    return 1 if issues else 0


if __name__ == "__main__":
    sys.exit(main())
